(* Theorems about BlockIter.v: the cursor of yrs (BlockIter) and its callers refine the plain list and the unit-level
   model of Crdt/Local.v.  Sections: 0-3 pointers, splits, invariant, try_forward; 4-6 Array::insert; 7 Branch::get_at;
   8a BlockIter::delete (names bit_del_..), 8b BlockIter::slice / get / to_json / iter (names bit_sl_..), 8c remove_range;
   9 the refuted statement; 10 Print Assumptions. *)
From Coq Require Import List NArith Bool Lia Wf_nat.
From YV Require Import Codec.AnyCodec Codec.UpdateV1 Crdt.Doc Crdt.YataProofs Crdt.Blocks Crdt.BlocksProofs Crdt.YataBlocks Crdt.YataBlocksProofs
  Crdt.Local Crdt.LocalProofs.
From YV.Crdt Require Import BlockIter.
Import ListNotations.
Open Scope N_scope.


(* ================================================================================================ *)
(* 0. pointers are well defined on a well-formed sequence                                            *)
(* ================================================================================================ *)
Lemma bit_ids_distinct : forall pre b suf, yib_seq_inv (pre ++ b :: suf) ->
  (forall B, In B pre -> yib_id B <> yib_id b) /\ (forall B, In B suf -> yib_id B <> yib_id b).
Proof.
  intros pre b suf (Hok & Hnd & _).
  assert (Hokb : yib_blk_ok b = true).
  { eapply yib_forallb_In; [exact Hok|]. apply in_or_app. right. left. reflexivity. }
  pose proof Hok as Hok0. rewrite forallb_app in Hok0. apply andb_prop in Hok0. destruct Hok0 as [Hokpre Hokbs].
  cbn [forallb] in Hokbs. apply andb_prop in Hokbs. destruct Hokbs as [_ Hoksuf].
  rewrite yib_expand_app, yib_ids_app, yib_expand_cons, yib_ids_app in Hnd.
  assert (Hown : In (yib_id b) (yib_ids (yib_ditems b))).
  { apply yib_mem_In. rewrite yib_contains_ids by exact Hokb. apply yib_contains_own_id. exact Hokb. }
  split; intros B HB E.
  - eapply (yib_nodupb_app _ _ (yib_id b) Hnd).
    + rewrite <- E. eapply yib_contains_expand; [exact Hokpre|exact HB|]. apply yib_contains_own_id.
      exact (yib_forallb_In pre B Hokpre HB).
    + apply in_or_app. left. exact Hown.
  - apply yib_nodupb_app_r in Hnd. eapply (yib_nodupb_app _ _ (yib_id b) Hnd); [exact Hown|].
    rewrite <- E. eapply yib_contains_expand; [exact Hoksuf|exact HB|]. apply yib_contains_own_id.
    exact (yib_forallb_In suf B Hoksuf HB).
Qed.

Lemma bit_id_eqb_false : forall a b : id, a <> b -> id_eqb a b = false.
Proof. intros a b H. apply id_eqb_neq. exact H. Qed.

Lemma bit_deref_at : forall pre b suf, (forall B, In B pre -> yib_id B <> yib_id b) ->
  yib_deref (yib_id b) (pre ++ b :: suf) = Some b.
Proof.
  induction pre as [|x r IH]; intros b suf H; cbn [app yib_deref].
  - rewrite id_eqb_refl. reflexivity.
  - rewrite bit_id_eqb_false by (apply H; left; reflexivity). apply IH. intros B HB. apply H. right. exact HB.
Qed.

Lemma bit_right_at : forall pre b suf, (forall B, In B pre -> yib_id B <> yib_id b) ->
  bit_right (yib_id b) (pre ++ b :: suf) = yib_head_ptr suf.
Proof.
  induction pre as [|x r IH]; intros b suf H; cbn [app bit_right].
  - rewrite id_eqb_refl. reflexivity.
  - rewrite bit_id_eqb_false by (apply H; left; reflexivity). apply IH. intros B HB. apply H. right. exact HB.
Qed.

Definition bit_last_ptr (s : yib_seq) : option id := yib_head_ptr (rev s).

Lemma bit_left_from_at : forall pre prev b suf, (forall B, In B pre -> yib_id B <> yib_id b) ->
  bit_left_from prev (yib_id b) (pre ++ b :: suf) = match bit_last_ptr pre with Some q => Some q | None => prev end.
Proof.
  induction pre as [|x r IH]; intros prev b suf H; cbn [app bit_left_from].
  - rewrite id_eqb_refl. reflexivity.
  - rewrite bit_id_eqb_false by (apply H; left; reflexivity).
    rewrite IH by (intros B HB; apply H; right; exact HB).
    unfold bit_last_ptr. cbn [rev]. destruct (rev r) as [|y t] eqn:E; cbn [app yib_head_ptr]; reflexivity.
Qed.

Lemma bit_left_at : forall pre b suf, (forall B, In B pre -> yib_id B <> yib_id b) ->
  bit_left (yib_id b) (pre ++ b :: suf) = bit_last_ptr pre.
Proof.
  intros. unfold bit_left. rewrite bit_left_from_at by assumption. destruct (bit_last_ptr pre); reflexivity.
Qed.

Lemma bit_set_deleted_at : forall pre b suf, (forall B, In B pre -> yib_id B <> yib_id b) ->
  bit_set_deleted (yib_id b) (pre ++ b :: suf) = pre ++ yib_set_del b true :: suf.
Proof.
  induction pre as [|x r IH]; intros b suf H; cbn [app bit_set_deleted].
  - rewrite id_eqb_refl. reflexivity.
  - rewrite bit_id_eqb_false by (apply H; left; reflexivity). f_equal. apply IH. intros B HB. apply H. right. exact HB.
Qed.

Lemma bit_cut_at_at : forall pre acc b suf, (forall B, In B pre -> yib_id B <> yib_id b) ->
  bit_cut_at (yib_id b) acc (pre ++ b :: suf) = Some (acc ++ pre, b :: suf).
Proof.
  induction pre as [|x r IH]; intros acc b suf H; cbn [app bit_cut_at].
  - rewrite id_eqb_refl, app_nil_r. reflexivity.
  - rewrite bit_id_eqb_false by (apply H; left; reflexivity).
    rewrite IH by (intros B HB; apply H; right; exact HB). rewrite <- app_assoc. reflexivity.
Qed.

Lemma bit_cut_after_at : forall pre b suf, (forall B, In B pre -> yib_id B <> yib_id b) ->
  yib_cut_after (yib_id b) (pre ++ b :: suf) = Some (pre ++ [b], suf).
Proof. intros. apply yib_cut_after_app; [assumption|reflexivity]. Qed.

(* ================================================================================================ *)
(* 1. splitting                                                                                      *)
(* ================================================================================================ *)
Lemma bit_split_some : forall b k, yib_blk_ok b = true -> bit_nostr_blk b = true -> 0 < k -> k < yib_len b ->
  exists l r, blk_split (yib_b b) k = Some (l, r).
Proof.
  intros [blk del] k Hok Hns H0 Hk. unfold yib_blk_ok, yib_is_item in Hok. unfold bit_nostr_blk in Hns.
  unfold yib_len in Hk. cbn [yib_b] in *.
  destruct blk as [i o ro p ps c|i n|i n]; cbn in Hok; try discriminate.
  unfold blk_split. cbn [block_len] in *.
  replace ((0 <? k) && (k <? content_len c)) with true
    by (symmetry; apply andb_true_intro; split; apply N.ltb_lt; assumption).
  destruct c; cbn [content_len] in Hk; cbn [blk_content_split]; try (exfalso; lia); try discriminate; eauto.
Qed.

(* the two halves: ids, lengths, flags *)
Lemma bit_split_halves : forall b k l r, yib_blk_ok b = true -> blk_split (yib_b b) k = Some (l, r) ->
  let bl := yib_mk l (yib_del b) in let br := yib_mk r (yib_del b) in
  yib_id bl = yib_id b /\ yib_len bl = k /\ yib_id br = mkid (cl (yib_id b)) (ck (yib_id b) + k) /\
  yib_len br = yib_len b - k /\ 0 < k /\ k < yib_len b /\
  bit_countable bl = bit_countable b /\ bit_countable br = bit_countable b /\
  bit_nostr_blk bl = bit_nostr_blk b /\ bit_nostr_blk br = bit_nostr_blk b /\
  yib_ditems b = yib_ditems bl ++ yib_ditems br /\
  bit_units b = bit_units bl ++ bit_units br /\ length (bit_units bl) = N.to_nat k.
Proof.
  intros b k l r Hok H. cbv zeta.
  destruct (yib_split_halves_ok b k l r Hok H) as (Hokl & Hokr & Hidl & Hlenl & Hidr & H0 & Hk).
  assert (Hwf : blk_wf (yib_b b) = true).
  { unfold yib_blk_ok in Hok. apply andb_prop in Hok. destruct Hok as [Hok _]. apply andb_prop in Hok. apply Hok. }
  pose proof (yib_split_ditems b k l r Hwf H) as Hdit.
  repeat split; try assumption.
  - (* len of right half *)
    pose proof (f_equal (@length ditem) Hdit) as Hl. rewrite app_length in Hl.
    destruct (yib_blk_ok_inv _ Hok) as (i & o & ro & p & ps & c & Eb & _ & Hlen & _).
    destruct (yib_blk_ok_inv _ Hokl) as (i1 & o1 & ro1 & p1 & ps1 & c1 & Eb1 & _ & Hlen1 & _).
    destruct (yib_blk_ok_inv _ Hokr) as (i2 & o2 & ro2 & p2 & ps2 & c2 & Eb2 & _ & Hlen2 & _).
    rewrite Eb in Hl at 1. rewrite Eb1 in Hl at 1. rewrite Eb2 in Hl at 1.
    rewrite !yib_ditems_item, !yib_dunits_length in Hl.
    assert (E0 : yib_len b = content_len c) by (rewrite Eb; reflexivity).
    assert (E1 : yib_len (yib_mk l (yib_del b)) = content_len c1) by (rewrite Eb1; reflexivity).
    assert (E2 : yib_len (yib_mk r (yib_del b)) = content_len c2) by (rewrite Eb2; reflexivity).
    rewrite E2. rewrite E0. rewrite E1 in Hlenl. lia.
  - unfold blk_split in H. destruct ((0 <? k) && (k <? block_len (yib_b b))); [|discriminate].
    unfold bit_countable. cbn [yib_b]. destruct (yib_b b) as [i o ro p ps c|i n|i n]; try (injection H as <- <-; reflexivity).
    destruct c; cbn [blk_content_split] in H; try discriminate; try (injection H as <- <-; reflexivity).
    destruct (str_len16 (fst (blk_split_str s k)) =? k); [injection H as <- <-; reflexivity|discriminate].
  - unfold blk_split in H. destruct ((0 <? k) && (k <? block_len (yib_b b))); [|discriminate].
    unfold bit_countable. cbn [yib_b]. destruct (yib_b b) as [i o ro p ps c|i n|i n]; try (injection H as <- <-; reflexivity).
    destruct c; cbn [blk_content_split] in H; try discriminate; try (injection H as <- <-; reflexivity).
    destruct (str_len16 (fst (blk_split_str s k)) =? k); [injection H as <- <-; reflexivity|discriminate].
  - unfold blk_split in H. destruct ((0 <? k) && (k <? block_len (yib_b b))); [|discriminate].
    unfold bit_nostr_blk. cbn [yib_b]. destruct (yib_b b) as [i o ro p ps c|i n|i n]; try (injection H as <- <-; reflexivity).
    destruct c; cbn [blk_content_split] in H; try discriminate; try (injection H as <- <-; reflexivity).
    destruct (str_len16 (fst (blk_split_str s k)) =? k); [injection H as <- <-; reflexivity|discriminate].
  - unfold blk_split in H. destruct ((0 <? k) && (k <? block_len (yib_b b))); [|discriminate].
    unfold bit_nostr_blk. cbn [yib_b]. destruct (yib_b b) as [i o ro p ps c|i n|i n]; try (injection H as <- <-; reflexivity).
    destruct c; cbn [blk_content_split] in H; try discriminate; try (injection H as <- <-; reflexivity).
    destruct (str_len16 (fst (blk_split_str s k)) =? k); [injection H as <- <-; reflexivity|discriminate].
  - (* units *)
    destruct (yib_blk_ok_inv _ Hok) as (i & o & ro & p & ps & c & Eb & _ & _ & _).
    assert (Eyb : yib_b b = BItem i o ro p ps c) by (rewrite Eb; reflexivity).
    unfold blk_split in H. rewrite Eyb in H. destruct ((0 <? k) && (k <? block_len (BItem i o ro p ps c))); [|discriminate].
    destruct (blk_content_split c k) as [[c1 c2]|] eqn:Ec; [|discriminate]. injection H as <- <-.
    unfold bit_units. cbn [yib_b]. rewrite Eyb.
    rewrite Eyb in Hwf. cbn [blk_wf] in Hwf.
    apply (blk_content_split_units c k c1 c2 Hwf); [|exact Ec].
    unfold yib_len in Hk. rewrite Eyb in Hk. exact Hk.
  - destruct (yib_blk_ok_inv _ Hokl) as (i1 & o1 & ro1 & p1 & ps1 & c1 & Eb1 & _ & Hlen1 & _).
    unfold bit_units. rewrite Eb1. cbn [yib_b].
    assert (E1 : yib_len (yib_mk l (yib_del b)) = content_len c1) by (rewrite Eb1; reflexivity).
    rewrite E1 in Hlenl. lia.
Qed.

(* ================================================================================================ *)
(* 2. the invariant, visible length, units                                                           *)
(* ================================================================================================ *)
Definition bit_inv (s : yib_seq) : Prop := yib_seq_inv s /\ bit_nostr s = true.

Lemma bit_ok_inv : forall br, bit_ok br = true ->
  bit_inv (bit_seq br) /\ bit_clen br = bit_vlen (bit_seq br).
Proof.
  intros br H. unfold bit_ok in H. rewrite !andb_true_iff in H. destruct H as [[H1 H2] H3].
  split; [split; [apply yib_seq_ok_inv; exact H1|exact H3]|apply N.eqb_eq; exact H2].
Qed.
Lemma bit_inv_ok : forall s c, bit_inv s -> c = bit_vlen s -> bit_ok (bit_mkbranch s c) = true.
Proof.
  intros s c [H1 H2] ->. unfold bit_ok. cbn [bit_seq bit_clen]. rewrite !andb_true_iff. repeat split.
  - apply yib_seq_ok_inv. exact H1.
  - apply N.eqb_refl.
  - exact H2.
Qed.

Lemma bit_vlen_app : forall a b, bit_vlen (a ++ b) = bit_vlen a + bit_vlen b.
Proof. induction a as [|x r IH]; intros b; cbn [app bit_vlen]; [reflexivity|]. rewrite IH. lia. Qed.

Lemma bit_inv_blk : forall s B, bit_inv s -> In B s -> yib_blk_ok B = true /\ bit_nostr_blk B = true.
Proof.
  intros s B [(Hok & _ & _) Hns] HB. split; [eapply yib_forallb_In; eassumption|].
  unfold bit_nostr in Hns. rewrite forallb_forall in Hns. apply Hns. exact HB.
Qed.

Lemma bit_blk_len_pos : forall b, yib_blk_ok b = true -> 0 < yib_len b.
Proof.
  intros b H. unfold yib_blk_ok in H. apply andb_prop in H. destruct H as [_ H]. unfold blk_nonempty in H.
  apply N.ltb_lt in H. exact H.
Qed.

(* the units of a block *)
Lemma bit_ditems_units : forall b, yib_blk_ok b = true ->
  map (fun x => ocont (d_op x)) (yib_ditems b) = bit_units b /\
  (forall u, In u (yib_ditems b) -> d_del u = yib_del b /\ live u = bit_live b) /\
  length (yib_ditems b) = N.to_nat (yib_len b).
Proof.
  intros b H. destruct (yib_blk_ok_inv b H) as (i & o & ro & p & ps & c & Eb & _ & Hlen & _).
  assert (Eyb : yib_b b = BItem i o ro p ps c) by (rewrite Eb; reflexivity).
  assert (Ed : yib_ditems b = yib_dunits (cl i) (ck i) o ro p ps (yib_del b) (content_units c)).
  { unfold yib_ditems. rewrite Eyb. cbn [units_of_block]. apply yib_ditems_units. }
  rewrite Ed. unfold bit_units, bit_live, bit_countable, yib_len. rewrite Eyb.
  cbn [block_len].
  assert (G : forall us ck0 o0, map (fun x => ocont (d_op x)) (yib_dunits (cl i) ck0 o0 ro p ps (yib_del b) us) = us /\
              (forall u, In u (yib_dunits (cl i) ck0 o0 ro p ps (yib_del b) us) ->
                         d_del u = yib_del b /\ In (ocont (d_op u)) us)).
  { induction us as [|u r IH]; intros ck0 o0; cbn [yib_dunits map].
    - split; [reflexivity|intros u []].
    - destruct (IH (ck0 + 1) (Some (mkid (cl i) ck0))) as [I1 I2]. split.
      + cbn [d_op ocont]. rewrite I1. reflexivity.
      + intros v [<-|Hv]; [split; [reflexivity|left; reflexivity]|].
        destruct (I2 v Hv) as [J1 J2]. split; [exact J1|right; exact J2]. }
  destruct (G (content_units c) (ck i) o) as [G1 G2]. split; [exact G1|]. split.
  - intros u Hu. destruct (G2 u Hu) as [J1 J2]. split; [exact J1|]. unfold live. rewrite J1. f_equal.
    unfold countable. destruct c; cbn [content_units] in J2.
    + apply repeat_spec in J2. rewrite J2. reflexivity.
    + apply in_map_iff in J2. destruct J2 as (x & <- & _). reflexivity.
    + destruct J2 as [<-|[]]. reflexivity.
    + destruct s as [|b0 [|b1 s']]; [destruct J2| |].
      * destruct J2 as [<-|[]]. reflexivity.
      * apply in_map_iff in J2. destruct J2 as (x & <- & _). reflexivity.
    + destruct J2 as [<-|[]]. reflexivity.
    + destruct J2 as [<-|[]]. reflexivity.
    + destruct J2 as [<-|[]]. reflexivity.
    + apply in_map_iff in J2. destruct J2 as (x & <- & _). reflexivity.
    + destruct J2 as [<-|[]]. reflexivity.
  - rewrite yib_dunits_length. lia.
Qed.

Lemma bit_filter_all : forall (A : Type) (f : A -> bool) l v, (forall x, In x l -> f x = v) ->
  filter f l = if v then l else [].
Proof.
  intros A f l v H. induction l as [|x r IH]; [destruct v; reflexivity|]. cbn [filter].
  rewrite (H x (or_introl eq_refl)), IH by (intros y Hy; apply H; right; exact Hy). destruct v; reflexivity.
Qed.

Lemma bit_live_ditems : forall b, yib_blk_ok b = true ->
  filter live (yib_ditems b) = if bit_live b then yib_ditems b else [].
Proof. intros b H. apply bit_filter_all. intros x Hx. apply (bit_ditems_units b H). exact Hx. Qed.

Lemma bit_contents_ditems : forall b, yib_blk_ok b = true ->
  contents (yib_ditems b) = if bit_live b then bit_units b else [].
Proof.
  intros b H. unfold contents. rewrite bit_live_ditems by exact H. destruct (bit_live b); [|reflexivity].
  apply (bit_ditems_units b H).
Qed.

Lemma bit_live_count : forall s, forallb yib_blk_ok s = true ->
  length (filter live (yib_expand s)) = N.to_nat (bit_vlen s).
Proof.
  induction s as [|b r IH]; intros H; [reflexivity|]. cbn [forallb] in H. apply andb_prop in H. destruct H as [Hb Hr].
  rewrite yib_expand_cons, filter_app, app_length, IH by exact Hr. cbn [bit_vlen].
  rewrite bit_live_ditems by exact Hb. destruct (bit_live b).
  - destruct (bit_ditems_units b Hb) as (_ & _ & Hl). rewrite Hl. unfold bit_len. lia.
  - cbn [length]. lia.
Qed.

(* get_item_clean_start + materialize strictly inside a block *)
Lemma bit_clean_start_at : forall pre b suf k, bit_inv (pre ++ b :: suf) -> 0 < k -> k < yib_len b ->
  exists l r, blk_split (yib_b b) k = Some (l, r) /\
    yib_clean_start (mkid (cl (yib_id b)) (ck (yib_id b) + k)) (pre ++ b :: suf)
    = yib_ok (Some (mkid (cl (yib_id b)) (ck (yib_id b) + k)),
              pre ++ yib_mk l (yib_del b) :: yib_mk r (yib_del b) :: suf) /\
    bit_inv (pre ++ yib_mk l (yib_del b) :: yib_mk r (yib_del b) :: suf) /\
    yib_expand (pre ++ yib_mk l (yib_del b) :: yib_mk r (yib_del b) :: suf) = yib_expand (pre ++ b :: suf) /\
    bit_vlen (pre ++ yib_mk l (yib_del b) :: yib_mk r (yib_del b) :: suf) = bit_vlen (pre ++ b :: suf).
Proof.
  intros pre b suf k Hinv H0 Hk. pose proof Hinv as [Hsi Hns]. pose proof Hsi as (Hok & Hnd & Hol).
  assert (Hin : In b (pre ++ b :: suf)) by (apply in_or_app; right; left; reflexivity).
  destruct (bit_inv_blk _ _ Hinv Hin) as [Hokb Hnsb].
  destruct (bit_split_some b k Hokb Hnsb H0 Hk) as (l & r & Es). exists l, r. split; [exact Es|].
  destruct (bit_ids_distinct pre b suf Hsi) as [Hd1 _].
  destruct (bit_split_halves b k l r Hokb Es) as (Hidl & Hlenl & Hidr & Hlenr & _ & _ & Hcl & Hcr & Hnl & Hnr & _).
  destruct (yib_split_inv_preserved pre b suf l r k Hsi Es) as [Hex Hsi'].
  split; [|split; [|split; [exact Hex|]]].
  - unfold yib_clean_start.
    assert (Hc : yib_contains b (mkid (cl (yib_id b)) (ck (yib_id b) + k)) = true).
    { unfold yib_contains. cbn [cl ck]. rewrite N.eqb_refl. cbn [andb]. apply andb_true_intro. split.
      - apply N.leb_le. lia.
      - apply N.ltb_lt. lia. }
    rewrite (yib_canon_of_nodup _ Hok Hnd b _ Hin Hc). cbn [ck].
    replace (ck (yib_id b) + k - ck (yib_id b)) with k by lia.
    replace (k =? 0) with false by (symmetry; apply N.eqb_neq; lia).
    rewrite yib_split_at_app_r by exact Hd1. cbn [yib_split_at]. rewrite id_eqb_refl, Es. reflexivity.
  - split; [exact Hsi'|]. unfold bit_nostr in *. rewrite forallb_app in *. cbn [forallb] in *.
    apply andb_prop in Hns. destruct Hns as [N1 N2]. apply andb_prop in N2. destruct N2 as [N2 N3].
    rewrite N1, N3, Hnl, Hnr, N2. reflexivity.
  - rewrite !bit_vlen_app. cbn [bit_vlen]. unfold bit_live, bit_len. cbn [yib_del]. rewrite Hcl, Hcr, Hlenl, Hlenr.
    destruct (negb (yib_del b) && bit_countable b); lia.
Qed.

(* marking blocks deleted keeps the invariant *)
Lemma bit_inv_same_blocks : forall s s', map yib_b s' = map yib_b s -> bit_inv s -> bit_inv s'.
Proof.
  intros s s' E [(Hok & Hnd & Hol) Hns].
  assert (Hops : map d_op (yib_expand s') = map d_op (yib_expand s)).
  { clear - E. revert s' E. induction s as [|b r IH]; intros [|b' r'] E; try discriminate; [reflexivity|].
    cbn [map] in E. injection E as Eb Er. rewrite !yib_expand_cons, !map_app. rewrite (IH r' Er). f_equal.
    unfold yib_ditems. rewrite Eb. generalize (units_of_block (yib_b b)). intros us.
    induction us as [|u us IHu]; [reflexivity|]. cbn [flat_map]. destruct u; cbn [app map d_op]; rewrite ?IHu; reflexivity. }
  assert (Hids : yib_ids (yib_expand s') = yib_ids (yib_expand s)).
  { unfold yib_ids, did. rewrite <- !(map_map d_op oid). rewrite Hops. reflexivity. }
  split; [split; [|split]|].
  - clear - E Hok. revert s' E. induction s as [|b r IH]; intros [|b' r'] E; try discriminate; [reflexivity|].
    cbn [map] in E. injection E as Eb Er. cbn [forallb] in *. apply andb_prop in Hok. destruct Hok as [H1 H2].
    rewrite (IH H2 r' Er), andb_true_r. unfold yib_blk_ok, yib_is_item in *. rewrite Eb. exact H1.
  - rewrite Hids. exact Hnd.
  - clear - Hops Hol. revert Hops Hol. generalize (yib_expand s'), (yib_expand s). intros l'.
    induction l' as [|u' r' IH]; intros [|u r] E H; try discriminate; [reflexivity|].
    cbn [map] in E. injection E as Eu Er. cbn [yib_origins_left] in *. apply andb_prop in H. destruct H as [H1 H2].
    rewrite (IH r Er H2), andb_true_r. rewrite Eu.
    assert (Hi : yib_ids (u' :: r') = yib_ids (u :: r)).
    { unfold yib_ids, did. cbn [map]. rewrite Eu. f_equal. rewrite <- !(map_map d_op oid), Er. reflexivity. }
    rewrite Hi. exact H1.
  - clear - E Hns. unfold bit_nostr in *. revert s' E. induction s as [|b r IH]; intros [|b' r'] E; try discriminate; [reflexivity|].
    cbn [map] in E. injection E as Eb Er. cbn [forallb] in *. apply andb_prop in Hns. destruct Hns as [H1 H2].
    rewrite (IH H2 r' Er), andb_true_r. unfold bit_nostr_blk in *. rewrite Eb. exact H1.
Qed.

Lemma bit_ditems_set_del : forall b, yib_ditems (yib_set_del b true) = map (fun x => mkditem (d_op x) true) (yib_ditems b).
Proof.
  intros b. unfold yib_ditems, yib_set_del. cbn [yib_b yib_del]. generalize (units_of_block (yib_b b)). intros us.
  induction us as [|u us IH]; [reflexivity|]. cbn [flat_map]. destruct u; cbn [app map d_op]; rewrite ?IH; reflexivity.
Qed.

(* ================================================================================================ *)
(* 3. where the cursor stands, and try_forward                                                       *)
(* ================================================================================================ *)
(* the cursor [it] stands at visible position [vis] of [s].  strong = true: as try_forward leaves it - on a live block
   (with rel units of it consumed), or at the end; strong = false also covers BlockIter::new (on the first block, live or not) *)
Inductive bit_at (strong : bool) (s : yib_seq) (vis : N) (it : bit_iter) : Prop :=
| bit_at_blk : forall P b S, s = P ++ b :: S ->
    (bit_live b = true \/ (strong = false /\ bit_rel it = 0)) -> bit_rel it < bit_len b ->
    bit_next it = Some (yib_id b) -> bit_end it = false -> bit_vlen P + bit_rel it = vis -> bit_at strong s vis it
| bit_at_end : forall P b, s = P ++ [b] -> bit_next it = Some (yib_id b) -> bit_end it = true -> bit_rel it = 0 ->
    bit_vlen s = vis -> bit_at strong s vis it
| bit_at_nil : s = [] -> bit_next it = None -> bit_end it = true -> bit_rel it = 0 -> vis = 0 -> bit_at strong s vis it.

Lemma bit_at_weaken : forall s vis it, bit_at true s vis it -> bit_at false s vis it.
Proof.
  intros s vis it H. destruct H as [P b S E [L|[L _]] R N0 E0 V|P b E N0 E0 R V|E N0 E0 R V].
  - eapply bit_at_blk; eauto.
  - discriminate.
  - eapply bit_at_end; eauto.
  - apply bit_at_nil; assumption.
Qed.

Lemma bit_at_new : forall br, bit_inv (bit_seq br) -> bit_at false (bit_seq br) 0 (bit_iter_new br).
Proof.
  intros br Hinv. unfold bit_iter_new. destruct (bit_seq br) as [|b r] eqn:E; cbn [yib_head_ptr].
  - apply bit_at_nil; reflexivity.
  - apply (bit_at_blk false (b :: r) 0 _ [] b r); cbn [bit_rel bit_next bit_end bit_vlen app]; try reflexivity.
    + right. split; reflexivity.
    + unfold bit_len. apply bit_blk_len_pos. apply (bit_inv_blk (b :: r) b Hinv). left. reflexivity.
Qed.

(* the loop of try_forward from the start of block b *)
Lemma bit_forward_loop_spec : forall suf pre b len fuel,
  yib_seq_inv (pre ++ b :: suf) -> (length suf + 2 <= fuel)%nat -> len <= bit_vlen (b :: suf) ->
  exists item rel re,
    bit_forward_loop fuel (pre ++ b :: suf) (Some (yib_id b)) len 0 false = yib_ok (bit_ldone item 0 rel re) /\
    ((exists P b' S, b :: suf = P ++ b' :: S /\ re = false /\ item = Some (yib_id b') /\ bit_live b' = true /\
                     rel < bit_len b' /\ bit_vlen P + rel = len) \/
     (exists P b', b :: suf = P ++ [b'] /\ re = true /\ item = Some (yib_id b') /\ rel = 0 /\ bit_vlen (b :: suf) = len)).
Proof.
  induction suf as [|b2 suf2 IH]; intros pre b len fuel Hinv Hfuel Hlen.
  - destruct (bit_ids_distinct pre b [] Hinv) as [Hd _].
    destruct fuel as [|[|f]]; cbn [length] in Hfuel; try lia.
    cbn [bit_vlen] in Hlen. rewrite N.add_0_r in Hlen.
    cbn [bit_forward_loop]. unfold bit_can_forward. cbn [negb].
    rewrite (bit_deref_at pre b [] Hd), (bit_right_at pre b [] Hd). cbn [yib_head_ptr].
    unfold bit_live in *.
    destruct (0 <? len) eqn:E0.
    + apply N.ltb_lt in E0. destruct (yib_del b) eqn:Ed; [cbn [negb andb] in Hlen; lia|].
      destruct (bit_countable b) eqn:Ec; [|cbn [negb andb] in Hlen; lia]. cbn [negb andb] in *.
      destruct (len <? bit_len b) eqn:E1.
      * apply N.ltb_lt in E1. exists (Some (yib_id b)), len, false. split; [reflexivity|]. left.
        exists [], b, []. repeat split; try assumption. rewrite Ed, Ec. reflexivity.
      * apply N.ltb_ge in E1. replace (len - bit_len b) with 0 by lia.
        cbn [negb]. exists (Some (yib_id b)), 0, true. split; [reflexivity|]. right.
        exists [], b. repeat split. cbn [bit_vlen]. unfold bit_live. rewrite Ed, Ec. cbn [negb andb]. lia.
    + apply N.ltb_ge in E0. assert (len = 0) by lia. subst len.
      destruct (negb (bit_countable b) || yib_del b || false) eqn:Ecf.
      * replace (bit_countable b && negb (yib_del b) && false) with false by (rewrite andb_false_r; reflexivity).
        cbn [negb]. exists (Some (yib_id b)), 0, true. split; [reflexivity|]. right.
        exists [], b. repeat split. cbn [bit_vlen]. unfold bit_live.
        rewrite orb_false_r in Ecf. destruct (bit_countable b), (yib_del b); cbn in Ecf |- *; try discriminate; reflexivity.
      * exists (Some (yib_id b)), 0, false. split; [reflexivity|]. left. exists [], b, [].
        rewrite orb_false_r in Ecf. apply orb_false_iff in Ecf. destruct Ecf as [Ec Ed]. apply negb_false_iff in Ec.
        repeat split.
        -- rewrite Ed, Ec. reflexivity.
        -- unfold bit_len. apply bit_blk_len_pos. destruct Hinv as (Hok & _). eapply yib_forallb_In; [exact Hok|].
           apply in_or_app. right. left. reflexivity.
  - destruct (bit_ids_distinct pre b (b2 :: suf2) Hinv) as [Hd _].
    destruct fuel as [|f]; cbn [length] in Hfuel; try lia.
    assert (Hinv2 : yib_seq_inv ((pre ++ [b]) ++ b2 :: suf2)) by (rewrite <- app_assoc; exact Hinv).
    assert (Hstep : forall len', len' <= bit_vlen (b2 :: suf2) -> bit_vlen [b] + len' = len ->
      exists item rel re,
        bit_forward_loop f (pre ++ b :: b2 :: suf2) (Some (yib_id b2)) len' 0 false = yib_ok (bit_ldone item 0 rel re) /\
        ((exists P b' S, b :: b2 :: suf2 = P ++ b' :: S /\ re = false /\ item = Some (yib_id b') /\ bit_live b' = true /\
                         rel < bit_len b' /\ bit_vlen P + rel = len) \/
         (exists P b', b :: b2 :: suf2 = P ++ [b'] /\ re = true /\ item = Some (yib_id b') /\ rel = 0 /\
                       bit_vlen (b :: b2 :: suf2) = len))).
    { intros len' Hl' Hsum. destruct (IH (pre ++ [b]) b2 len' f Hinv2) as (item & rel & re & Hrun & Hc); [lia|exact Hl'|].
      rewrite <- app_assoc in Hrun. cbn [app] in Hrun. exists item, rel, re. split; [exact Hrun|].
      cbn [bit_vlen] in Hsum. rewrite N.add_0_r in Hsum.
      destruct Hc as [(P & b' & S & E & -> & -> & L & R & V)|(P & b' & E & -> & -> & -> & V)].
      - left. exists (b :: P), b', S. rewrite E. repeat split; try assumption. cbn [bit_vlen]. lia.
      - right. exists (b :: P), b'. rewrite E. repeat split. rewrite <- E. cbn [bit_vlen] in *. lia. }
    cbn [bit_forward_loop]. unfold bit_can_forward. cbn [negb].
    rewrite (bit_deref_at pre b _ Hd), (bit_right_at pre b _ Hd). cbn [yib_head_ptr].
    change (bit_vlen (b :: b2 :: suf2)) with ((if bit_live b then bit_len b else 0) + bit_vlen (b2 :: suf2)) in Hlen.
    unfold bit_live in *.
    destruct (0 <? len) eqn:E0.
    + apply N.ltb_lt in E0.
      destruct (bit_countable b && negb (yib_del b) && true) eqn:El.
      * rewrite andb_true_r in El. apply andb_prop in El. destruct El as [Ec Ed]. apply negb_true_iff in Ed.
        rewrite Ed, Ec in *. cbn [negb andb] in *.
        destruct (len <? bit_len b) eqn:E1.
        -- apply N.ltb_lt in E1. exists (Some (yib_id b)), len, false. split; [reflexivity|]. left.
           exists [], b, (b2 :: suf2). repeat split; try assumption. rewrite Ed, Ec. reflexivity.
        -- apply N.ltb_ge in E1. apply Hstep; [lia|]. cbn [bit_vlen]. unfold bit_live. rewrite Ed, Ec. cbn [negb andb]. lia.
      * rewrite andb_true_r in El. apply Hstep.
        -- destruct (bit_countable b), (yib_del b); cbn in El, Hlen |- *; try discriminate; lia.
        -- cbn [bit_vlen]. unfold bit_live. destruct (bit_countable b), (yib_del b); cbn in El |- *; try discriminate; lia.
    + apply N.ltb_ge in E0. assert (len = 0) by lia. subst len.
      destruct (negb (bit_countable b) || yib_del b || false) eqn:Ecf.
      * replace (bit_countable b && negb (yib_del b) && false) with false by (rewrite andb_false_r; reflexivity).
        apply Hstep; [lia|]. cbn [bit_vlen]. unfold bit_live. rewrite orb_false_r in Ecf.
        destruct (bit_countable b), (yib_del b); cbn in Ecf |- *; try discriminate; lia.
      * exists (Some (yib_id b)), 0, false. split; [reflexivity|]. left. exists [], b, (b2 :: suf2).
        rewrite orb_false_r in Ecf. apply orb_false_iff in Ecf. destruct Ecf as [Ec Ed]. apply negb_false_iff in Ec.
        repeat split.
        -- rewrite Ed, Ec. reflexivity.
        -- unfold bit_len. apply bit_blk_len_pos. destruct Hinv as (Hok & _). eapply yib_forallb_In; [exact Hok|].
           apply in_or_app. right. left. reflexivity.
Qed.

Theorem bit_try_forward_spec : forall br it len,
  bit_inv (bit_seq br) -> bit_clen br = bit_vlen (bit_seq br) ->
  bit_at false (bit_seq br) (bit_index it) it -> bit_index it + len <= bit_clen br ->
  exists it', bit_try_forward (bit_fuel (bit_seq br)) br it len = yib_ok (true, it') /\
    bit_index it' = bit_index it + len /\ bit_at true (bit_seq br) (bit_index it') it'.
Proof.
  intros [s c] [ix rl nx en] len [Hsi Hns] Hc Hat Hle. cbn [bit_seq bit_clen bit_index] in *. subst c.
  unfold bit_try_forward. cbn [bit_seq bit_clen bit_index bit_next bit_rel bit_end].
  destruct Hat as [P b S E Hl R N0 E0 V|P b E N0 E0 R V|E N0 E0 R V]; cbn [bit_next bit_rel bit_end] in *; subst.
  - rewrite bit_vlen_app in Hle.
    replace (bit_vlen (P ++ b :: S) <? bit_vlen P + rl + len) with false
      by (symmetry; apply N.ltb_ge; rewrite bit_vlen_app; exact Hle).
    assert (El : (if rl =? 0 then len else len + rl) = len + rl).
    { destruct (rl =? 0) eqn:E; [apply N.eqb_eq in E; lia|reflexivity]. }
    rewrite El.
    destruct (bit_forward_loop_spec S P b (len + rl) (bit_fuel (P ++ b :: S)) Hsi) as (item & rel & re & Hrun & Hc).
    { unfold bit_fuel. rewrite app_length. cbn [length]. lia. }
    { lia. }
    rewrite Hrun. replace (bit_vlen P + rl + len <? 0) with false by (symmetry; apply N.ltb_ge; lia).
    eexists. split; [reflexivity|]. cbn [bit_index]. split; [lia|].
    destruct Hc as [(P' & b' & S' & E & -> & -> & L & R' & V)|(P' & b' & E & -> & -> & -> & V)].
    + apply (bit_at_blk true _ _ _ (P ++ P') b' S'); cbn [bit_rel bit_next bit_end]; try assumption; try reflexivity.
      * rewrite <- app_assoc, <- E. reflexivity.
      * left. exact L.
      * rewrite bit_vlen_app. lia.
    + apply (bit_at_end true _ _ _ (P ++ P') b'); cbn [bit_rel bit_next bit_end]; try reflexivity.
      * rewrite <- app_assoc, <- E. reflexivity.
      * rewrite bit_vlen_app. lia.
  - assert (len = 0) by lia. subst len. rewrite !N.add_0_r.
    match goal with |- context [if ?x <? ?y then _ else _] =>
      replace (x <? y) with false by (symmetry; apply N.ltb_ge; apply N.le_refl) end.
    rewrite N.eqb_refl.
    unfold bit_fuel. cbn [bit_forward_loop]. unfold bit_can_forward. cbn [negb].
    replace (bit_vlen (P ++ [b]) <? 0) with false by (symmetry; apply N.ltb_ge; lia).
    eexists. split; [reflexivity|]. cbn [bit_index]. split; [lia|].
    rewrite N.sub_0_r. apply (bit_at_end true _ _ _ P b); reflexivity.
  - cbn [bit_vlen] in Hle. assert (len = 0) by lia. subst len. rewrite N.eqb_refl.
    eexists. split; [reflexivity|]. cbn [bit_index]. split; [lia|]. apply bit_at_nil; reflexivity.
Qed.

(* try_forward says false exactly when the index is beyond content_len *)
Lemma bit_try_forward_beyond : forall br it len, bit_index it <= bit_clen br -> bit_clen br < bit_index it + len ->
  exists it', bit_try_forward (bit_fuel (bit_seq br)) br it len = yib_ok (false, it').
Proof.
  intros br it len H0 H. unfold bit_try_forward. destruct (bit_next it).
  - replace (bit_clen br <? bit_index it + len) with true by (symmetry; apply N.ltb_lt; exact H). eexists. reflexivity.
  - replace (len =? 0) with false by (symmetry; apply N.eqb_neq; lia). eexists. reflexivity.
Qed.


(* ================================================================================================ *)
(* 4. unit level: where split_gap / split_live cut, and iterated local_insert                        *)
(* ================================================================================================ *)
(* split_gap cuts after the longest prefix with i live units, provided what is not live is deleted *)
Lemma bit_split_gap_char : forall a b i,
  length (filter live a) = i -> (forall u, In u a -> live u = false -> d_del u = true) ->
  match b with [] => True | x :: _ => d_del x = false end ->
  split_gap i (a ++ b) = (a, b).
Proof.
  induction a as [|x a' IH]; intros b i Hc Hd Hb.
  - cbn [filter length] in Hc. subst i. cbn [app]. unfold split_gap. rewrite split_live_zero.
    destruct b as [|y b']; [reflexivity|]. cbn [skip_deleted]. rewrite Hb. reflexivity.
  - cbn [app filter] in *. destruct (live x) eqn:Lx.
    + cbn [length] in Hc. destruct i as [|j]; [discriminate|]. injection Hc as Hc.
      specialize (IH b j Hc (fun u Hu => Hd u (or_intror Hu)) Hb).
      unfold split_gap in *. cbn [split_live]. rewrite Lx.
      destruct (split_live j (a' ++ b)) as [p q]. destruct (skip_deleted q) as [d b'].
      injection IH as E1 E2. subst. reflexivity.
    + specialize (IH b i Hc (fun u Hu => Hd u (or_intror Hu)) Hb).
      destruct i as [|j].
      * unfold split_gap in *. rewrite split_live_zero in *. cbn [skip_deleted].
        rewrite (Hd x (or_introl eq_refl) Lx).
        destruct (skip_deleted (a' ++ b)) as [d b']. cbn [app] in IH. injection IH as E1 E2. subst. reflexivity.
      * unfold split_gap in *. cbn [split_live]. rewrite Lx.
        destruct (split_live (S j) (a' ++ b)) as [p q]. destruct (skip_deleted q) as [d b'].
        injection IH as E1 E2. subst. reflexivity.
Qed.

(* split_live cuts directly after the i-th live unit *)
Lemma bit_split_live_char : forall a b i,
  length (filter live a) = i ->
  (i = O -> a = []) -> (forall a' y, a = a' ++ [y] -> live y = true) ->
  split_live i (a ++ b) = (a, b).
Proof.
  induction a as [|x a' IH]; intros b i Hc H0 Hl.
  - cbn [filter length] in Hc. subst i. apply split_live_zero.
  - cbn [app filter] in *. destruct i as [|j]; [specialize (H0 eq_refl); discriminate|].
    cbn [split_live]. destruct (live x) eqn:Lx.
    + cbn [length] in Hc. injection Hc as Hc.
      rewrite (IH b j Hc); [reflexivity| |].
      * intros ->. destruct a' as [|z a'']; [reflexivity|]. exfalso.
        destruct (@exists_last _ (z :: a'')) as (m & y & E); [discriminate|].
        assert (Ly : live y = true) by (apply (Hl (x :: m) y); rewrite E; reflexivity).
        rewrite E, filter_app in Hc. cbn [filter] in Hc. rewrite Ly, app_length in Hc. cbn [length] in Hc. lia.
      * intros m y E. apply (Hl (x :: m) y). rewrite E. reflexivity.
    + rewrite (IH b (S j) Hc); [reflexivity|discriminate|].
      intros m y E. apply (Hl (x :: m) y). rewrite E. reflexivity.
Qed.

(* the unit-level counterpart of inserting a block of several elements: one local_insert per element, each at the
   next index with the next clock *)
Fixpoint bit_local_insert_units (key : seqkey) (l : list ditem) (i : nat) (c k : N) (us : list ucontent) : list ditem :=
  match us with
  | [] => l
  | u :: r => bit_local_insert_units key (local_insert key l i (mkid c k) u) (S i) c (k + 1) r
  end.
Fixpoint bit_local_insert_direct_units (key : seqkey) (l : list ditem) (i : nat) (c k : N) (us : list ucontent)
  : list ditem :=
  match us with
  | [] => l
  | u :: r => bit_local_insert_direct_units key (local_insert_direct key l i (mkid c k) u) (S i) c (k + 1) r
  end.

Definition bit_ucountable (u : ucontent) : bool := match u with UDeleted | UFormat _ _ => false | _ => true end.

Lemma bit_last_id_app_cons : forall (a : list ditem) x, last_id (a ++ [x]) = Some (did x).
Proof. intros. apply last_id_snoc. Qed.

Lemma bit_local_insert_units_at_gap : forall key us a b i c k,
  NoDup (map did (a ++ b)) ->
  length (filter live a) = i -> (forall u, In u a -> live u = false -> d_del u = true) ->
  match b with [] => True | x :: _ => d_del x = false end ->
  (forall j, k <= j -> j < k + N.of_nat (length us) -> ~ In (mkid c j) (map did (a ++ b))) ->
  forallb bit_ucountable us = true ->
  bit_local_insert_units key (a ++ b) i c k us
  = a ++ yib_dunits c k (last_id a) (head_id b) (fst key) (snd key) false us ++ b.
Proof.
  intros key us. induction us as [|u r IH]; intros a b i c k Hnd Hc Hd Hb Hfresh Hcnt.
  - reflexivity.
  - cbn [bit_local_insert_units yib_dunits]. cbn [forallb] in Hcnt. apply andb_prop in Hcnt. destruct Hcnt as [Hu Hr].
    assert (Hnew : ~ In (mkid c k) (map did (a ++ b))).
    { apply Hfresh; [lia|]. cbn [length]. lia. }
    rewrite (local_insert_after_following_tombstones key (a ++ b) i (mkid c k) u a b Hnd Hnew
               (bit_split_gap_char a b i Hc Hd Hb)).
    assert (Eop : local_op key (a ++ b) i (mkid c k) u = mkop (mkid c k) (last_id a) (head_id b) (fst key) (snd key) u).
    { unfold local_op. rewrite (bit_split_gap_char a b i Hc Hd Hb). reflexivity. }
    rewrite Eop. set (new := mkditem (mkop (mkid c k) (last_id a) (head_id b) (fst key) (snd key) u) false).
    change (a ++ new :: b) with (a ++ [new] ++ b). rewrite app_assoc.
    assert (Lnew : live new = true).
    { unfold live, new, countable. cbn [d_del d_op ocont negb andb]. destruct u; cbn in Hu; try discriminate; reflexivity. }
    rewrite (IH (a ++ [new]) b (S i) c (k + 1)).
    + rewrite last_id_snoc. unfold new at 2. unfold did. cbn [d_op oid]. rewrite <- app_assoc. reflexivity.
    + rewrite <- app_assoc. cbn [app]. rewrite map_app. cbn [map]. apply NoDup_Add with (a := did new) (l := map did a ++ map did b).
      * apply Add_app.
      * split; [rewrite <- map_app; exact Hnd|rewrite <- map_app; exact Hnew].
    + rewrite filter_app, app_length. cbn [filter]. rewrite Lnew. cbn [length]. lia.
    + intros v Hv Lv. apply in_app_or in Hv. destruct Hv as [Hv|[<-|[]]]; [apply Hd; assumption|congruence].
    + exact Hb.
    + intros j H1 H2 Hin. rewrite <- app_assoc in Hin. cbn [app] in Hin. rewrite map_app in Hin. cbn [map] in Hin.
      apply in_app_or in Hin. destruct Hin as [Hin|[Hin|Hin]].
      * apply (Hfresh j); [lia|cbn [length]; lia|]. rewrite map_app. apply in_or_app. left. exact Hin.
      * unfold new, did in Hin. cbn [d_op oid] in Hin. injection Hin as Hin. lia.
      * apply (Hfresh j); [lia|cbn [length]; lia|]. rewrite map_app. apply in_or_app. right. exact Hin.
    + exact Hr.
Qed.

Lemma bit_local_insert_direct_units_at : forall key us a b i c k,
  NoDup (map did (a ++ b)) ->
  length (filter live a) = i -> (i = O -> a = []) -> (forall a' y, a = a' ++ [y] -> live y = true) ->
  (forall j, k <= j -> j < k + N.of_nat (length us) -> ~ In (mkid c j) (map did (a ++ b))) ->
  forallb bit_ucountable us = true ->
  bit_local_insert_direct_units key (a ++ b) i c k us
  = a ++ yib_dunits c k (last_id a) (head_id b) (fst key) (snd key) false us ++ b.
Proof.
  intros key us. induction us as [|u r IH]; intros a b i c k Hnd Hc H0 Hl Hfresh Hcnt.
  - reflexivity.
  - cbn [bit_local_insert_direct_units yib_dunits]. cbn [forallb] in Hcnt. apply andb_prop in Hcnt. destruct Hcnt as [Hu Hr].
    assert (Hnew : ~ In (mkid c k) (map did (a ++ b))).
    { apply Hfresh; [lia|]. cbn [length]. lia. }
    pose proof (bit_split_live_char a b i Hc H0 Hl) as Hs.
    rewrite (local_insert_direct_position key (a ++ b) i (mkid c k) u a b Hnd Hs).
    2:{ destruct i as [|j]; [left; reflexivity|right]. destruct a as [|a0 ar].
        - cbn [filter length] in Hc. discriminate.
        - destruct (@exists_last _ (a0 :: ar)) as (m & z & E); [discriminate|]. exists m, z. exact E. }
    assert (Eop : local_op_direct key (a ++ b) i (mkid c k) u = mkop (mkid c k) (last_id a) (head_id b) (fst key) (snd key) u).
    { unfold local_op_direct. rewrite Hs. reflexivity. }
    rewrite Eop. set (new := mkditem (mkop (mkid c k) (last_id a) (head_id b) (fst key) (snd key) u) false).
    change (a ++ new :: b) with (a ++ [new] ++ b). rewrite app_assoc.
    assert (Lnew : live new = true).
    { unfold live, new, countable. cbn [d_del d_op ocont negb andb]. destruct u; cbn in Hu; try discriminate; reflexivity. }
    rewrite (IH (a ++ [new]) b (S i) c (k + 1)).
    + rewrite last_id_snoc. unfold new at 2. unfold did. cbn [d_op oid]. rewrite <- app_assoc. reflexivity.
    + rewrite <- app_assoc. cbn [app]. rewrite map_app. cbn [map]. apply NoDup_Add with (a := did new) (l := map did a ++ map did b).
      * apply Add_app.
      * split; [rewrite <- map_app; exact Hnd|rewrite <- map_app; exact Hnew].
    + rewrite filter_app, app_length. cbn [filter]. rewrite Lnew. cbn [length]. lia.
    + discriminate.
    + intros m y E. apply app_inj_tail in E. destruct E as [_ <-]. exact Lnew.
    + intros j H1 H2 Hin. rewrite <- app_assoc in Hin. cbn [app] in Hin. rewrite map_app in Hin. cbn [map] in Hin.
      apply in_app_or in Hin. destruct Hin as [Hin|[Hin|Hin]].
      * apply (Hfresh j); [lia|cbn [length]; lia|]. rewrite map_app. apply in_or_app. left. exact Hin.
      * unfold new, did in Hin. cbn [d_op oid] in Hin. injection Hin as Hin. lia.
      * apply (Hfresh j); [lia|cbn [length]; lia|]. rewrite map_app. apply in_or_app. right. exact Hin.
    + exact Hr.
Qed.

(* ================================================================================================ *)
(* 5. block level: the new item between the two neighbours                                           *)
(* ================================================================================================ *)
(* the block Item::new builds between [L] and [R] *)
Definition bit_new_blk (L R : yib_seq) (newid : id) (par : parent) (c : bcontent) : yib_blk :=
  yib_mk (BItem newid (match rev L with lb :: _ => Some (yib_last_id lb) | [] => None end) (yib_head_ptr R) par None c) false.

Lemma bit_last_ptr_snoc : forall P b, bit_last_ptr (P ++ [b]) = Some (yib_id b).
Proof. intros. unfold bit_last_ptr. rewrite rev_app_distr. reflexivity. Qed.

Lemma bit_oid_eqb_refl : forall o, oid_eqb o o = true.
Proof. intros o. apply yib_oid_eqb_true. reflexivity. Qed.

Lemma bit_list_rev_cases : forall (A : Type) (l : list A), l = [] \/ exists m z, l = m ++ [z].
Proof.
  intros A l. destruct l as [|h t]; [left; reflexivity|right].
  destruct (@exists_last _ (h :: t)) as (m & z & E); [discriminate|]. exists m, z. exact E.
Qed.

Lemma bit_integrate_at : forall L R x, yib_seq_inv (L ++ R) -> yib_psub x = None ->
  yib_integrate_ptrs (L ++ R) x (bit_last_ptr L) (yib_head_ptr R) false
  = yib_ok (L ++ yib_set_del x (yib_is_deleted_content x || yib_del x || false) :: R).
Proof.
  intros L R x Hinv Hps. unfold yib_integrate_ptrs.
  destruct (bit_list_rev_cases _ L) as [->|(P & lb & ->)].
  - cbn [bit_last_ptr rev yib_head_ptr app].
    assert (En : (if yib_detect_conflict None (yib_head_ptr R) R then yib_resolve_conflict x (yib_head_ptr R) R R else O) = O).
    { destruct R as [|b S]; cbn [yib_head_ptr yib_detect_conflict].
      - reflexivity.
      - rewrite bit_oid_eqb_refl. reflexivity. }
    rewrite En. cbn [firstn skipn app]. unfold yib_link. rewrite Hps. reflexivity.
  - rewrite bit_last_ptr_snoc. rewrite <- app_assoc in *. cbn [app] in *.
    destruct (bit_ids_distinct P lb R Hinv) as [Hd _].
    rewrite (bit_cut_after_at P lb R Hd).
    assert (En : (if yib_detect_conflict (Some (yib_id lb)) (yib_head_ptr R) R
                  then yib_resolve_conflict x (yib_head_ptr R) (P ++ lb :: R) R else O) = O).
    { unfold yib_detect_conflict. rewrite bit_oid_eqb_refl. reflexivity. }
    rewrite En. cbn [firstn skipn]. rewrite app_nil_r. unfold yib_link. rewrite Hps. rewrite <- app_assoc. reflexivity.
Qed.

(* the cursor stands between [L] and [R] (rel = 0) *)
Definition bit_between (L R : yib_seq) (it : bit_iter) : Prop :=
  bit_rel it = 0 /\
  match R with
  | b :: _ => bit_next it = Some (yib_id b) /\ bit_end it = false
  | [] => bit_next it = bit_last_ptr L /\ bit_end it = true
  end.

Lemma bit_new_item_at : forall L R newid par c, yib_seq_inv (L ++ R) -> content_len c <> 0 ->
  bit_new_item (L ++ R) newid par c (bit_last_ptr L) (yib_head_ptr R) = yib_ok (bit_new_blk L R newid par c).
Proof.
  intros L R newid par c Hinv Hc. unfold bit_new_item, bit_new_blk.
  replace (content_len c =? 0) with false by (symmetry; apply N.eqb_neq; exact Hc).
  destruct (bit_list_rev_cases _ L) as [->|(P & lb & ->)].
  - reflexivity.
  - rewrite bit_last_ptr_snoc, rev_app_distr. cbn [rev app]. rewrite <- app_assoc in *. cbn [app] in *.
    destruct (bit_ids_distinct P lb R Hinv) as [Hd _]. rewrite (bit_deref_at P lb R Hd). reflexivity.
Qed.

Lemma bit_insert_contents_between : forall L R it clen newid par c,
  yib_seq_inv (L ++ R) -> bit_between L R it -> bit_content_ok c = true -> content_len c <> 0 ->
  exists it', bit_insert_contents (bit_mkbranch (L ++ R) clen) it newid par c
  = yib_ok (bit_mkbranch (L ++ bit_new_blk L R newid par c :: R) (clen + content_len c), it').
Proof.
  intros L R it clen newid par c Hinv (Hrel & Hcur) Hcok Hc.
  unfold bit_insert_contents, bit_split_rel. cbn [bit_seq bit_clen]. rewrite Hrel. cbn [N.ltb N.compare yib_bind fst snd].
  assert (Hlr : bit_it_right it = yib_head_ptr R /\ bit_it_left (L ++ R) it = bit_last_ptr L).
  { unfold bit_it_right, bit_it_left. destruct R as [|b S].
    - destruct Hcur as [-> ->]. split; reflexivity.
    - destruct Hcur as [-> ->]. split; [reflexivity|]. destruct (bit_ids_distinct L b S Hinv) as [Hd _].
      apply bit_left_at. exact Hd. }
  rewrite N.ltb_irrefl. cbn [yib_bind fst snd]. destruct Hlr as [-> ->].
  rewrite (bit_new_item_at L R newid par c Hinv Hc). cbn [yib_bind].
  unfold bit_integrate. cbn [bit_seq bit_clen].
  rewrite (bit_integrate_at L R (bit_new_blk L R newid par c) Hinv eq_refl). cbn [yib_bind].
  assert (Ecnt : bit_countable (bit_new_blk L R newid par c) && negb (yib_is_deleted_content (bit_new_blk L R newid par c)) = true
                 /\ yib_set_del (bit_new_blk L R newid par c)
                      (yib_is_deleted_content (bit_new_blk L R newid par c) || yib_del (bit_new_blk L R newid par c) || false)
                    = bit_new_blk L R newid par c).
  { unfold bit_content_ok in Hcok. apply andb_prop in Hcok. destruct Hcok as [_ Hk].
    unfold bit_new_blk, bit_countable, yib_is_deleted_content, yib_set_del. cbn [yib_b yib_del].
    destruct c; try discriminate; split; reflexivity. }
  destruct Ecnt as [-> ->]. unfold bit_len, yib_len, bit_new_blk. cbn [yib_b block_len].
  eexists. reflexivity.
Qed.

(* Array::insert: the shape of the result *)
Theorem bit_array_insert_shape : forall br i newid par c,
  bit_ok br = true -> i <= bit_clen br -> bit_content_ok c = true -> content_len c <> 0 ->
  exists L R,
    bit_array_insert br i newid par c
    = yib_ok (bit_mkbranch (L ++ bit_new_blk L R newid par c :: R) (bit_clen br + content_len c)) /\
    bit_inv (L ++ R) /\ yib_expand (L ++ R) = yib_expand (bit_seq br) /\ bit_vlen L = i /\
    match R with [] => True | b :: _ => bit_live b = true end /\
    (length (L ++ R) <= length (bit_seq br) + 1)%nat.
Proof.
  intros br i newid par c Hok Hi Hcok Hc. destruct (bit_ok_inv br Hok) as [Hinv Hclen].
  unfold bit_array_insert.
  destruct (bit_try_forward_spec br (bit_iter_new br) i Hinv Hclen (bit_at_new br Hinv)) as (w & Hrun & Hidx & Hat).
  { cbn [bit_iter_new bit_index]. exact Hi. }
  rewrite Hrun. cbn [bit_iter_new bit_index] in Hidx. rewrite N.add_0_l in Hidx. rewrite Hidx in Hat.
  destruct br as [s clen]. cbn [bit_seq bit_clen] in *.
  destruct Hat as [P b S E [Lb|[Lb _]] R N0 E0 V|P b E N0 E0 R V|E N0 E0 R V]; try discriminate.
  - (* on a live block *)
    destruct (N.eq_dec (bit_rel w) 0) as [Er|Er].
    + subst s. destruct (bit_insert_contents_between P (b :: S) w clen newid par c) as (it' & Hins); try assumption.
      { apply Hinv. } { split; [exact Er|split; assumption]. }
      rewrite Hins. cbn [yib_bind fst]. exists P, (b :: S). split; [reflexivity|]. split; [exact Hinv|].
      split; [reflexivity|]. split; [lia|]. split; [exact Lb|lia].
    + (* split_rel *)
      subst s. destruct (bit_clean_start_at P b S (bit_rel w) Hinv) as (l & r & Es & Hcs & Hinv' & Hex & Hvl); [lia|exact R|].
      assert (Hokb : yib_blk_ok b = true).
      { apply (bit_inv_blk _ b Hinv). apply in_or_app. right. left. reflexivity. }
      destruct (bit_split_halves b (bit_rel w) l r Hokb Es) as (Hidl & Hlenl & Hidr & Hlenr & _ & _ & Hcl & Hcr & _).
      set (bl := yib_mk l (yib_del b)) in *. set (brr := yib_mk r (yib_del b)) in *.
      unfold bit_insert_contents at 1. unfold bit_split_rel. cbn [bit_seq bit_clen].
      replace (0 <? bit_rel w) with true by (symmetry; apply N.ltb_lt; lia).
      rewrite N0. rewrite Hcs. cbn [yib_bind fst snd].
      assert (Eapp : P ++ bl :: brr :: S = (P ++ [bl]) ++ brr :: S) by (rewrite <- app_assoc; reflexivity).
      rewrite Eapp in *.
      set (it1 := bit_mkiter (bit_index w) 0 (Some (mkid (cl (yib_id b)) (ck (yib_id b) + bit_rel w))) (bit_end w)).
      destruct (bit_insert_contents_between (P ++ [bl]) (brr :: S) it1 clen newid par c) as (it' & Hins); try assumption.
      { apply Hinv'. }
      { split; [reflexivity|]. cbn [bit_next bit_end it1]. rewrite Hidr. split; [reflexivity|exact E0]. }
      unfold bit_insert_contents, bit_split_rel in Hins. cbn [bit_seq bit_clen bit_rel it1] in Hins.
      rewrite N.ltb_irrefl in Hins. cbn [yib_bind fst snd] in Hins. fold it1. rewrite Hins. cbn [yib_bind fst].
      exists (P ++ [bl]), (brr :: S). split; [reflexivity|]. split; [exact Hinv'|]. split; [exact Hex|].
      split.
      * rewrite bit_vlen_app. cbn [bit_vlen]. unfold bit_live, bit_len in *. cbn [yib_del bl] in *. fold bl.
        rewrite Hcl, Hlenl. rewrite Lb. lia.
      * split.
        -- unfold bit_live in *. cbn [yib_del brr]. fold brr. rewrite Hcr. exact Lb.
        -- rewrite !app_length. cbn [length]. rewrite ?app_length. cbn [length]. lia.
  - (* at the end *)
    subst s. replace (P ++ [b]) with ((P ++ [b]) ++ []) in * by apply app_nil_r.
    destruct (bit_insert_contents_between (P ++ [b]) [] w clen newid par c) as (it' & Hins); try assumption.
    { apply Hinv. } { split; [exact R|]. rewrite bit_last_ptr_snoc. split; assumption. }
    rewrite Hins. cbn [yib_bind fst]. exists (P ++ [b]), []. split; [reflexivity|]. split; [exact Hinv|].
    split; [reflexivity|]. split; [rewrite app_nil_r in V; exact V|]. split; [exact I|lia].
  - (* empty sequence *)
    subst s. destruct (bit_insert_contents_between [] [] w clen newid par c) as (it' & Hins); try assumption.
    { apply Hinv. } { split; [exact R|]. split; assumption. }
    cbn [app] in Hins. rewrite Hins. cbn [yib_bind fst]. exists [], []. split; [reflexivity|]. split; [exact Hinv|].
    split; [reflexivity|]. split; [cbn [bit_vlen]; lia|]. split; [exact I|cbn [app length]; lia].
Qed.

(* ================================================================================================ *)
(* 6. Array::insert refines the list and the unit-level local_insert                                 *)
(* ================================================================================================ *)
Lemma bit_new_blk_ok : forall L R newid par c, bit_content_ok c = true -> content_len c <> 0 ->
  yib_blk_ok (bit_new_blk L R newid par c) = true /\ bit_live (bit_new_blk L R newid par c) = true /\
  bit_units (bit_new_blk L R newid par c) = content_units c.
Proof.
  intros L R newid par c Hc Hl. unfold bit_content_ok in Hc. apply andb_prop in Hc. destruct Hc as [Hwf Hk].
  unfold yib_blk_ok, bit_new_blk, yib_is_item, bit_live, bit_countable, bit_units, blk_nonempty. cbn [yib_b yib_del blk_wf block_len].
  rewrite Hwf. replace (0 <? content_len c) with true by (symmetry; apply N.ltb_lt; lia).
  destruct c; try discriminate; repeat split; reflexivity.
Qed.

Lemma bit_inv_app_ok : forall L R, bit_inv (L ++ R) -> forallb yib_blk_ok L = true /\ forallb yib_blk_ok R = true.
Proof. intros L R [(Hok & _) _]. rewrite forallb_app in Hok. apply andb_prop in Hok. exact Hok. Qed.

Theorem bit_insert_refines_list : forall br i newid par c,
  bit_ok br = true -> bit_content_ok c = true -> content_len c <> 0 ->
  let vis := contents (yib_expand (bit_seq br)) in
  (i <= bit_clen br ->
   exists br', bit_array_insert br i newid par c = yib_ok br' /\
     contents (yib_expand (bit_seq br')) = firstn (N.to_nat i) vis ++ content_units c ++ skipn (N.to_nat i) vis /\
     bit_clen br' = bit_clen br + content_len c /\
     (length (bit_seq br') <= length (bit_seq br) + 2)%nat) /\
  (bit_clen br < i -> bit_array_insert br i newid par c = yib_fail 13).
Proof.
  intros br i newid par c Hok Hcok Hc vis. split.
  - intros Hi. destruct (bit_array_insert_shape br i newid par c Hok Hi Hcok Hc) as (L & R & Hrun & Hinv & Hex & Hv & _ & Hlen).
    eexists. split; [exact Hrun|]. cbn [bit_seq bit_clen]. split; [|split; [reflexivity|]].
    + destruct (bit_new_blk_ok L R newid par c Hcok Hc) as (Hokx & Hlx & Hux).
      destruct (bit_inv_app_ok L R Hinv) as [HokL HokR].
      rewrite yib_expand_app, yib_expand_cons, !contents_app, (bit_contents_ditems _ Hokx), Hlx, Hux.
      unfold vis. rewrite <- Hex, yib_expand_app, contents_app.
      destruct (firstn_skipn_at _ (contents (yib_expand L)) (contents (yib_expand R)) (N.to_nat i)) as [Ef Es].
      { rewrite contents_length, (bit_live_count L HokL), Hv. reflexivity. }
      rewrite Ef, Es. reflexivity.
    + rewrite app_length in *. cbn [length]. lia.
  - intros Hi. unfold bit_array_insert.
    destruct (bit_try_forward_beyond br (bit_iter_new br) i) as (it' & Hrun).
    + cbn [bit_iter_new bit_index]. lia.
    + cbn [bit_iter_new bit_index]. lia.
    + rewrite Hrun. reflexivity.
Qed.

Lemma bit_nodupb_NoDup : forall l, yib_nodupb l = true -> NoDup l.
Proof.
  induction l as [|i r IH]; intros H; [constructor|]. cbn [yib_nodupb] in H. apply andb_prop in H. destruct H as [H1 H2].
  constructor; [|apply IH; exact H2]. apply negb_true_iff in H1. apply yib_mem_false in H1. exact H1.
Qed.

Lemma bit_nonlive_deleted : forall s, forallb yib_blk_ok s = true -> bit_noncountable_deleted s = true ->
  forall u, In u (yib_expand s) -> live u = false -> d_del u = true.
Proof.
  induction s as [|b r IH]; intros Hok Hnc u Hu Lu; [destruct Hu|].
  cbn [forallb] in Hok. apply andb_prop in Hok. destruct Hok as [Hb Hr].
  unfold bit_noncountable_deleted in *. cbn [forallb] in Hnc. apply andb_prop in Hnc. destruct Hnc as [Nb Nr].
  rewrite yib_expand_cons in Hu. apply in_app_or in Hu. destruct Hu as [Hu|Hu]; [|apply (IH Hr Nr u Hu Lu)].
  destruct (bit_ditems_units b Hb) as (_ & Hall & _). destruct (Hall u Hu) as [Ed El]. rewrite Ed.
  rewrite El in Lu. unfold bit_live in Lu. destruct (yib_del b); [reflexivity|]. cbn [negb andb orb] in *.
  rewrite Lu in Nb. discriminate.
Qed.

Lemma bit_last_id_expand : forall L, forallb yib_blk_ok L = true ->
  last_id (yib_expand L) = match rev L with lb :: _ => Some (yib_last_id lb) | [] => None end.
Proof.
  intros L Hok. destruct (bit_list_rev_cases _ L) as [->|(P & lb & ->)]; [reflexivity|].
  rewrite rev_app_distr. cbn [rev app]. rewrite forallb_app in Hok. apply andb_prop in Hok. destruct Hok as [_ Hlb].
  cbn [forallb] in Hlb. rewrite andb_true_r in Hlb. destruct (yib_ditems_last lb Hlb) as (init & ul & E & Hid).
  rewrite yib_expand_app. cbn [yib_expand flat_map]. rewrite app_nil_r, E, app_assoc, last_id_snoc, Hid. reflexivity.
Qed.

Lemma bit_head_id_expand : forall R, forallb yib_blk_ok R = true -> head_id (yib_expand R) = yib_head_ptr R.
Proof.
  intros [|b S] Hok; [reflexivity|]. cbn [forallb] in Hok. apply andb_prop in Hok. destruct Hok as [Hb _].
  destruct (yib_ditems_head b Hb) as (u & r & E & _ & _ & Hid). rewrite yib_expand_cons, E. cbn [app head_id yib_head_ptr].
  rewrite Hid. reflexivity.
Qed.

Lemma bit_units_countable : forall c, bit_content_ok c = true -> forallb bit_ucountable (content_units c) = true.
Proof.
  intros c H. unfold bit_content_ok in H. apply andb_prop in H. destruct H as [_ H].
  destruct c; try discriminate; cbn [content_units forallb bit_ucountable]; try reflexivity;
    apply forallb_forall; intros x Hx; apply in_map_iff in Hx; destruct Hx as (y & <- & _); reflexivity.
Qed.

Theorem bit_insert_refines_units : forall br i newid par c,
  bit_ok br = true -> bit_noncountable_deleted (bit_seq br) = true ->
  bit_content_ok c = true -> content_len c <> 0 -> bit_fresh (bit_seq br) newid c = true ->
  i <= bit_clen br ->
  exists br', bit_array_insert br i newid par c = yib_ok br' /\
    yib_expand (bit_seq br')
    = bit_local_insert_units (par, None) (yib_expand (bit_seq br)) (N.to_nat i) (cl newid) (ck newid) (content_units c).
Proof.
  intros br i newid par c Hok Hnc Hcok Hc Hfr Hi.
  destruct (bit_array_insert_shape br i newid par c Hok Hi Hcok Hc) as (L & R & Hrun & Hinv & Hex & Hv & HR & _).
  eexists. split; [exact Hrun|]. cbn [bit_seq].
  destruct (bit_ok_inv br Hok) as [[(Hok0 & Hnd0 & _) _] _].
  destruct (bit_inv_app_ok L R Hinv) as [HokL HokR].
  destruct (bit_new_blk_ok L R newid par c Hcok Hc) as (Hokx & _ & _).
  rewrite <- Hex. rewrite (yib_expand_app L R).
  rewrite (bit_local_insert_units_at_gap (par, None) (content_units c) (yib_expand L) (yib_expand R) (N.to_nat i)).
  - rewrite yib_expand_app, yib_expand_cons. f_equal. f_equal.
    unfold bit_new_blk. rewrite yib_ditems_item. cbn [fst snd].
    rewrite (bit_last_id_expand L HokL), (bit_head_id_expand R HokR). destruct newid. reflexivity.
  - rewrite <- yib_expand_app, Hex. apply bit_nodupb_NoDup. exact Hnd0.
  - rewrite (bit_live_count L HokL), Hv. reflexivity.
  - intros u Hu. apply (bit_nonlive_deleted (bit_seq br) Hok0 Hnc). rewrite <- Hex, yib_expand_app. apply in_or_app. left. exact Hu.
  - destruct R as [|b1 S]; [exact I|]. cbn [forallb] in HokR. apply andb_prop in HokR. destruct HokR as [Hb1 _].
    destruct (yib_ditems_head b1 Hb1) as (u & r & E & _). rewrite yib_expand_cons, E. cbn [app].
    destruct (bit_ditems_units b1 Hb1) as (_ & Hall & _). destruct (Hall u) as [Ed _]; [rewrite E; left; reflexivity|].
    rewrite Ed. unfold bit_live in HR. apply andb_prop in HR. destruct HR as [HR _]. apply negb_true_iff in HR. exact HR.
  - intros j H1 H2 Hin. rewrite <- yib_expand_app, Hex in Hin. apply in_map_iff in Hin. destruct Hin as (u & Eu & Hu).
    unfold bit_fresh in Hfr. rewrite forallb_forall in Hfr. specialize (Hfr u Hu). cbv zeta in Hfr.
    rewrite !andb_true_iff in Hfr. destruct Hfr as [[Hf _] _]. apply negb_true_iff in Hf. rewrite Eu in Hf. cbn [cl ck] in Hf.
    destruct (yib_blk_ok_inv _ Hokx) as (i0 & o0 & ro0 & p0 & ps0 & c0 & Eb & _ & Hlen & _).
    unfold bit_new_blk in Eb. injection Eb as _ _ _ _ _ Ec. subst c0. rewrite <- Hlen in Hf.
    rewrite N.eqb_refl in Hf. cbn [andb] in Hf. apply andb_false_iff in Hf.
    destruct Hf as [Hf|Hf]; [apply N.leb_gt in Hf; lia|apply N.ltb_ge in Hf; lia].
  - apply bit_units_countable. exact Hcok.
Qed.

(* ================================================================================================ *)
(* 7. Branch::get_at (XML children)                                                                  *)
(* ================================================================================================ *)
Lemma bit_units_length : forall b, yib_blk_ok b = true -> length (bit_units b) = N.to_nat (yib_len b).
Proof.
  intros b H. destruct (bit_ditems_units b H) as (E & _ & Hl). rewrite <- E, map_length. exact Hl.
Qed.

Theorem bit_get_at_refines_list : forall s i, forallb yib_blk_ok s = true ->
  bit_get_at s i = nth_error (contents (yib_expand s)) (N.to_nat i).
Proof.
  induction s as [|b r IH]; intros i Hok.
  - cbn [bit_get_at]. destruct (N.to_nat i); reflexivity.
  - cbn [forallb] in Hok. apply andb_prop in Hok. destruct Hok as [Hb Hr].
    cbn [bit_get_at]. rewrite yib_expand_cons, contents_app, (bit_contents_ditems b Hb).
    fold (bit_live b). destruct (bit_live b).
    + pose proof (bit_units_length b Hb) as Hl. unfold bit_len. destruct (i <? yib_len b) eqn:E.
      * apply N.ltb_lt in E. rewrite nth_error_app1 by lia. reflexivity.
      * apply N.ltb_ge in E. rewrite nth_error_app2 by lia. rewrite (IH (i - yib_len b) Hr). f_equal. lia.
    + cbn [app]. apply IH. exact Hr.
Qed.

(* ================================================================================================ *)
(* 8a. BlockIter::delete *)


(* ================================================================================================ *)
(* 1. the specification on a suffix                                                                  *)
(* ================================================================================================ *)
Fixpoint bit_del_spec (suf : yib_seq) (len : N) : yib_seq :=
  match suf with
  | [] => []
  | b :: r =>
    if len =? 0 then suf
    else if bit_live b then
      (if len <? bit_len b then
         match blk_split (yib_b b) len with
         | Some (l, rr) => yib_mk l true :: yib_mk rr (yib_del b) :: r
         | None => suf
         end
       else yib_set_del b true :: bit_del_spec r (len - bit_len b))
    else b :: bit_del_spec r len
  end.

Lemma bit_del_spec_zero : forall suf, bit_del_spec suf 0 = suf.
Proof. destruct suf; reflexivity. Qed.

Lemma bit_del_ld_zero : forall l i, local_delete i 0 l = l.
Proof.
  induction l as [|x l IH]; intros i; cbn [local_delete]; [reflexivity|].
  destruct (live x); [destruct i; [reflexivity|rewrite IH; reflexivity]|rewrite IH; reflexivity].
Qed.

Lemma bit_del_ld_skip : forall a l i n, length (filter live a) = i ->
  local_delete i n (a ++ l) = a ++ local_delete 0 n l.
Proof.
  induction a as [|x a IH]; intros l i n H; cbn [app filter] in *.
  - cbn [length] in H. subst. reflexivity.
  - cbn [local_delete]. destruct (live x) eqn:E.
    + cbn [length] in H. destruct i; [discriminate|]. injection H as H. rewrite IH by exact H. reflexivity.
    + rewrite IH by exact H. reflexivity.
Qed.

Lemma bit_del_ld_kill : forall a l m, (forall u, In u a -> live u = true) ->
  local_delete 0 (length a + m) (a ++ l) = map (fun x => mkditem (d_op x) true) a ++ local_delete 0 m l.
Proof.
  induction a as [|x a IH]; intros l m H; cbn [app length map Nat.add].
  - reflexivity.
  - cbn [local_delete]. rewrite (H x (or_introl eq_refl)). rewrite IH by (intros u Hu; apply H; right; exact Hu).
    reflexivity.
Qed.

Lemma bit_del_live_units : forall b, yib_blk_ok b = true -> bit_live b = true ->
  forall u, In u (yib_ditems b) -> live u = true.
Proof.
  intros b Hok Hl u Hu. destruct (bit_ditems_units b Hok) as (_ & H & _). destruct (H u Hu) as [_ ->]. exact Hl.
Qed.

Lemma bit_del_ditems_len : forall b, yib_blk_ok b = true -> length (yib_ditems b) = N.to_nat (bit_len b).
Proof. intros b Hok. apply (bit_ditems_units b Hok). Qed.

(* facts about a split of a live block *)
Lemma bit_del_split_facts : forall b k l rr, yib_blk_ok b = true -> blk_split (yib_b b) k = Some (l, rr) ->
  yib_blk_ok (yib_mk l (yib_del b)) = true /\ yib_blk_ok (yib_mk rr (yib_del b)) = true /\
  bit_len (yib_mk l (yib_del b)) = k /\ bit_len (yib_mk rr (yib_del b)) = bit_len b - k /\
  bit_live (yib_mk l (yib_del b)) = bit_live b /\ bit_live (yib_mk rr (yib_del b)) = bit_live b /\
  yib_ditems b = yib_ditems (yib_mk l (yib_del b)) ++ yib_ditems (yib_mk rr (yib_del b)) /\
  yib_id (yib_mk l (yib_del b)) = yib_id b /\ 0 < k /\ k < bit_len b.
Proof.
  intros b k l rr Hok Es.
  destruct (yib_split_halves_ok b k l rr Hok Es) as (Hokl & Hokr & Hidl & Hlenl & _ & H0 & Hk).
  destruct (bit_split_halves b k l rr Hok Es) as (_ & _ & _ & Hlenr & _ & _ & Hcl & Hcr & _ & _ & Hdit & _).
  unfold bit_len, bit_live. cbn [yib_del]. rewrite Hcl, Hcr.
  repeat split; assumption.
Qed.

Lemma bit_del_spec_expand : forall suf len, forallb yib_blk_ok suf = true -> bit_nostr suf = true ->
  len <= bit_vlen suf ->
  yib_expand (bit_del_spec suf len) = local_delete 0 (N.to_nat len) (yib_expand suf).
Proof.
  induction suf as [|b r IH]; intros len Hok Hns Hlen; [reflexivity|].
  cbn [forallb] in Hok. apply andb_prop in Hok. destruct Hok as [Hb Hr].
  unfold bit_nostr in Hns. cbn [forallb] in Hns. apply andb_prop in Hns. destruct Hns as [Hnb Hnr].
  cbn [bit_del_spec]. destruct (len =? 0) eqn:E0.
  { apply N.eqb_eq in E0. subst. cbn [N.to_nat]. rewrite bit_del_ld_zero. reflexivity. }
  apply N.eqb_neq in E0. cbn [bit_vlen] in Hlen. destruct (bit_live b) eqn:El.
  - destruct (len <? bit_len b) eqn:E1.
    + apply N.ltb_lt in E1.
      destruct (bit_split_some b len Hb Hnb) as (l & rr & Es); [lia|exact E1|]. rewrite Es.
      destruct (bit_del_split_facts b len l rr Hb Es) as (Hokl & Hokr & Hll & Hlr & Lvl & Lvr & Hdit & _).
      rewrite !yib_expand_cons, Hdit, <- app_assoc.
      change (yib_mk l true) with (yib_set_del (yib_mk l (yib_del b)) true). rewrite bit_ditems_set_del.
      replace (N.to_nat len) with (length (yib_ditems (yib_mk l (yib_del b))) + 0)%nat
        by (rewrite bit_del_ditems_len by exact Hokl; rewrite Hll; lia).
      rewrite bit_del_ld_kill, bit_del_ld_zero; [reflexivity|].
      apply bit_del_live_units; [exact Hokl|]. rewrite Lvl. exact El.
    + apply N.ltb_ge in E1. rewrite !yib_expand_cons, bit_ditems_set_del, IH; [|exact Hr|exact Hnr|lia].
      replace (N.to_nat len) with (length (yib_ditems b) + N.to_nat (len - bit_len b))%nat
        by (rewrite bit_del_ditems_len by exact Hb; lia).
      rewrite bit_del_ld_kill; [reflexivity|]. apply bit_del_live_units; assumption.
  - rewrite !yib_expand_cons, IH; [|exact Hr|exact Hnr|lia]. symmetry. apply bit_del_ld_skip.
    rewrite bit_live_ditems by exact Hb. rewrite El. reflexivity.
Qed.

Lemma bit_del_spec_vlen : forall suf len, forallb yib_blk_ok suf = true -> bit_nostr suf = true ->
  len <= bit_vlen suf -> bit_vlen (bit_del_spec suf len) = bit_vlen suf - len.
Proof.
  induction suf as [|b r IH]; intros len Hok Hns Hlen; [reflexivity|].
  cbn [forallb] in Hok. apply andb_prop in Hok. destruct Hok as [Hb Hr].
  unfold bit_nostr in Hns. cbn [forallb] in Hns. apply andb_prop in Hns. destruct Hns as [Hnb Hnr].
  cbn [bit_del_spec]. destruct (len =? 0) eqn:E0.
  { apply N.eqb_eq in E0. subst. lia. }
  apply N.eqb_neq in E0. cbn [bit_vlen] in Hlen |- *. destruct (bit_live b) eqn:El.
  - destruct (len <? bit_len b) eqn:E1.
    + apply N.ltb_lt in E1.
      destruct (bit_split_some b len Hb Hnb) as (l & rr & Es); [lia|exact E1|]. rewrite Es.
      destruct (bit_del_split_facts b len l rr Hb Es) as (Hokl & Hokr & Hll & Hlr & Lvl & Lvr & Hdit & _).
      cbn [bit_vlen]. rewrite Lvr, El, Hlr.
      replace (bit_live (yib_mk l true)) with false by reflexivity. lia.
    + apply N.ltb_ge in E1. cbn [bit_vlen]. replace (bit_live (yib_set_del b true)) with false by reflexivity.
      rewrite IH; [|exact Hr|exact Hnr|lia]. lia.
  - cbn [bit_vlen]. rewrite El. rewrite IH; [|exact Hr|exact Hnr|lia]. lia.
Qed.

Lemma bit_del_spec_length : forall suf len, (length (bit_del_spec suf len) <= length suf + 1)%nat.
Proof.
  induction suf as [|b r IH]; intros len; cbn [bit_del_spec length]; [lia|].
  destruct (len =? 0); [cbn [length]; lia|]. destruct (bit_live b).
  - destruct (len <? bit_len b).
    + destruct (blk_split (yib_b b) len) as [[l rr]|]; cbn [length]; lia.
    + cbn [length]. specialize (IH (len - bit_len b)). lia.
  - cbn [length]. specialize (IH len). lia.
Qed.

Lemma bit_del_spec_inv : forall suf pre len, bit_inv (pre ++ suf) -> bit_inv (pre ++ bit_del_spec suf len).
Proof.
  induction suf as [|b r IH]; intros pre len H; [exact H|].
  cbn [bit_del_spec]. destruct (len =? 0); [exact H|]. destruct (bit_live b) eqn:El.
  - destruct (len <? bit_len b) eqn:E1.
    + destruct (blk_split (yib_b b) len) as [[l rr]|] eqn:Es; [|exact H].
      assert (Hokb : yib_blk_ok b = true).
      { apply (bit_inv_blk _ b H). apply in_or_app. right. left. reflexivity. }
      destruct (bit_del_split_facts b len l rr Hokb Es) as (_ & _ & _ & _ & _ & _ & _ & _ & H0 & Hk).
      destruct (bit_clean_start_at pre b r len H H0 Hk) as (l' & r' & Es' & _ & Hinv' & _).
      rewrite Es in Es'. injection Es' as <- <-.
      eapply bit_inv_same_blocks; [|exact Hinv']. rewrite !map_app. reflexivity.
    + assert (H1 : bit_inv ((pre ++ [yib_set_del b true]) ++ r)).
      { eapply bit_inv_same_blocks; [|exact H]. rewrite <- app_assoc, !map_app. reflexivity. }
      apply (IH _ (len - bit_len b)) in H1. rewrite <- app_assoc in H1. exact H1.
  - assert (H1 : bit_inv ((pre ++ [b]) ++ r)) by (rewrite <- app_assoc; exact H).
    apply (IH _ len) in H1. rewrite <- app_assoc in H1. exact H1.
Qed.

Lemma bit_del_inv_parts : forall pre suf, bit_inv (pre ++ suf) ->
  forallb yib_blk_ok suf = true /\ bit_nostr suf = true /\ forallb yib_blk_ok pre = true.
Proof.
  intros pre suf [(Hok & _) Hns]. unfold bit_nostr in *. rewrite forallb_app in Hok, Hns.
  apply andb_prop in Hok. apply andb_prop in Hns. repeat split; tauto.
Qed.

(* blocks without visible length are stepped over *)
Lemma bit_del_spec_skip : forall P X len, forallb yib_blk_ok P = true -> bit_vlen P = 0 ->
  bit_del_spec (P ++ X) len = P ++ bit_del_spec X len.
Proof.
  induction P as [|b P IH]; intros X len Hok Hv; [reflexivity|].
  cbn [forallb] in Hok. apply andb_prop in Hok. destruct Hok as [Hb Hr].
  cbn [bit_vlen] in Hv. cbn [app bit_del_spec]. destruct (len =? 0) eqn:E0.
  { apply N.eqb_eq in E0. subst. rewrite bit_del_spec_zero. reflexivity. }
  destruct (bit_live b) eqn:El.
  - pose proof (bit_blk_len_pos b Hb). unfold bit_len in Hv. lia.
  - rewrite IH; [reflexivity|exact Hr|lia].
Qed.

(* the assembled result *)
Lemma bit_del_final : forall pre suf len s0, bit_inv (pre ++ suf) ->
  yib_expand (pre ++ suf) = yib_expand s0 -> bit_vlen (pre ++ suf) = bit_vlen s0 -> len <= bit_vlen suf ->
  (length (pre ++ suf) <= length s0 + 1)%nat ->
  bit_inv (pre ++ bit_del_spec suf len) /\ bit_vlen (pre ++ bit_del_spec suf len) = bit_vlen s0 - len /\
  yib_expand (pre ++ bit_del_spec suf len)
  = local_delete (N.to_nat (bit_vlen pre)) (N.to_nat len) (yib_expand s0) /\
  (length (pre ++ bit_del_spec suf len) <= length s0 + 2)%nat.
Proof.
  intros pre suf len s0 Hinv Hex Hv Hlen Hl.
  destruct (bit_del_inv_parts pre suf Hinv) as (Hoks & Hnss & Hokp).
  split; [apply bit_del_spec_inv; exact Hinv|]. split; [|split].
  - rewrite bit_vlen_app in *. rewrite bit_del_spec_vlen by assumption. lia.
  - rewrite <- Hex, !yib_expand_app, bit_del_spec_expand by assumption.
    symmetry. apply bit_del_ld_skip. apply bit_live_count. exact Hokp.
  - rewrite app_length in *. pose proof (bit_del_spec_length suf len). lia.
Qed.

(* ================================================================================================ *)
(* 2. the inner loop                                                                                 *)
(* ================================================================================================ *)
Lemma bit_del_live_flags : forall b, bit_live b = true -> yib_del b = false /\ bit_countable b = true.
Proof. intros b H. unfold bit_live in H. destruct (yib_del b), (bit_countable b); try discriminate; split; reflexivity. Qed.

Lemma bit_del_inner_stop : forall f s c p b rel e, yib_deref p s = Some b ->
  bit_delete_inner (S f) (bit_mkd (bit_mkbranch s c) (Some p) 0 rel e)
  = yib_ok (bit_mkd (bit_mkbranch s c) (Some p) 0 rel e).
Proof.
  intros. cbn [bit_delete_inner bit_d_br bit_d_item bit_seq]. rewrite H. cbn [bit_d_len].
  rewrite N.ltb_irrefl, andb_false_r. reflexivity.
Qed.

Lemma bit_del_inner_dead : forall f s c p b len rel e, yib_deref p s = Some b -> bit_live b = false ->
  bit_delete_inner (S f) (bit_mkd (bit_mkbranch s c) (Some p) len rel e)
  = yib_ok (bit_mkd (bit_mkbranch s c) (Some p) len rel e).
Proof.
  intros. cbn [bit_delete_inner bit_d_br bit_d_item bit_seq]. rewrite H.
  change (negb (yib_del b) && bit_countable b) with (bit_live b). rewrite H0. reflexivity.
Qed.

Lemma bit_del_inner_step_full : forall f pre b r c len, bit_inv (pre ++ b :: r) -> bit_live b = true ->
  0 < len -> bit_len b <= len -> bit_len b <= c ->
  bit_delete_inner (S f) (bit_mkd (bit_mkbranch (pre ++ b :: r) c) (Some (yib_id b)) len 0 false) =
  match yib_head_ptr r with
  | Some q => bit_delete_inner f (bit_mkd (bit_mkbranch (pre ++ yib_set_del b true :: r) (c - bit_len b))
                                          (Some q) (len - bit_len b) 0 false)
  | None => bit_delete_inner f (bit_mkd (bit_mkbranch (pre ++ yib_set_del b true :: r) (c - bit_len b))
                                        (Some (yib_id b)) (len - bit_len b) 0 true)
  end.
Proof.
  intros f pre b r c len Hinv El H0 Hle Hc.
  destruct (bit_ids_distinct pre b r (proj1 Hinv)) as [Hd _].
  destruct (bit_del_live_flags b El) as [Ed Ec].
  pose proof (bit_deref_at pre b r Hd) as Hde.
  assert (Hr : bit_right (yib_id b) (pre ++ yib_set_del b true :: r) = yib_head_ptr r)
    by (exact (bit_right_at pre (yib_set_del b true) r Hd)).
  cbn [bit_delete_inner bit_d_br bit_d_item bit_d_len bit_d_rel bit_d_end bit_seq bit_clen].
  rewrite Hde. change (negb (yib_del b) && bit_countable b) with (bit_live b). rewrite El.
  replace (0 <? len) with true by (symmetry; apply N.ltb_lt; exact H0).
  rewrite N.ltb_irrefl. cbn [negb andb yib_bind fst snd]. rewrite Hde.
  replace (len <? bit_len b) with false by (symmetry; apply N.ltb_ge; exact Hle).
  cbn [yib_bind]. rewrite Hde.
  unfold bit_txn_delete. cbn [bit_seq bit_clen]. rewrite Hde, Ed, Ec.
  replace (c <? bit_len b) with false by (symmetry; apply N.ltb_ge; exact Hc).
  cbn [yib_bind bit_seq]. rewrite (bit_set_deleted_at pre b r Hd), Hr.
  replace (len <? bit_len b) with false by (symmetry; apply N.ltb_ge; exact Hle).
  destruct (yib_head_ptr r); reflexivity.
Qed.

Lemma bit_del_inner_step_split : forall f pre b r c len, bit_inv (pre ++ b :: r) -> bit_live b = true ->
  0 < len -> len < bit_len b -> len <= c ->
  exists l rr, blk_split (yib_b b) len = Some (l, rr) /\
    bit_delete_inner (S (S f)) (bit_mkd (bit_mkbranch (pre ++ b :: r) c) (Some (yib_id b)) len 0 false) =
    yib_ok (bit_mkd (bit_mkbranch (pre ++ yib_mk l true :: yib_mk rr false :: r) (c - len))
                    (Some (yib_id (yib_mk rr false))) 0 0 false).
Proof.
  intros f pre b r c len Hinv El H0 Hlt Hc.
  destruct (bit_ids_distinct pre b r (proj1 Hinv)) as [Hd _].
  destruct (bit_del_live_flags b El) as [Ed Ec].
  pose proof (bit_deref_at pre b r Hd) as Hde.
  destruct (bit_clean_start_at pre b r len Hinv H0 Hlt) as (l & rr & Es & Hcs & Hinv2 & _).
  exists l, rr. split; [exact Es|]. rewrite Ed in *.
  assert (Hokb : yib_blk_ok b = true).
  { apply (bit_inv_blk _ b Hinv). apply in_or_app. right. left. reflexivity. }
  destruct (bit_del_split_facts b len l rr Hokb Es) as (_ & _ & Hll & _ & Lvl & _ & _ & Hidl & _).
  rewrite Ed in *.
  set (bl := yib_mk l false) in *. set (brr := yib_mk rr false) in *.
  destruct (bit_ids_distinct pre bl (brr :: r) (proj1 Hinv2)) as [Hd2 _].
  pose proof (bit_deref_at pre bl (brr :: r) Hd2) as Hde2. rewrite Hidl in Hde2.
  assert (El2 : bit_live bl = true) by (rewrite Lvl; exact El).
  destruct (bit_del_live_flags bl El2) as [Ed2 Ec2].
  assert (Hr : bit_right (yib_id b) (pre ++ yib_set_del bl true :: brr :: r) = Some (yib_id brr)).
  { rewrite <- Hidl. exact (bit_right_at pre (yib_set_del bl true) (brr :: r) Hd2). }
  assert (Hsd : bit_set_deleted (yib_id b) (pre ++ bl :: brr :: r) = pre ++ yib_set_del bl true :: brr :: r).
  { rewrite <- Hidl. apply bit_set_deleted_at. exact Hd2. }
  assert (Hinv3 : bit_inv ((pre ++ [yib_set_del bl true]) ++ brr :: r)).
  { eapply bit_inv_same_blocks; [|exact Hinv2]. rewrite <- app_assoc, !map_app. reflexivity. }
  destruct (bit_ids_distinct _ brr r (proj1 Hinv3)) as [Hd3 _].
  pose proof (bit_deref_at _ brr r Hd3) as Hde3. rewrite <- app_assoc in Hde3. cbn [app] in Hde3.
  cbn [bit_delete_inner bit_d_br bit_d_item bit_d_len bit_d_rel bit_d_end bit_seq bit_clen].
  rewrite Hde. change (negb (yib_del b) && bit_countable b) with (bit_live b). rewrite El.
  replace (0 <? len) with true by (symmetry; apply N.ltb_lt; exact H0).
  rewrite N.ltb_irrefl. cbn [negb andb yib_bind fst snd]. rewrite Hde.
  replace (len <? bit_len b) with true by (symmetry; apply N.ltb_lt; exact Hlt).
  rewrite Hcs. cbn [yib_bind fst snd]. rewrite Hde2.
  replace (len <? bit_len bl) with false by (symmetry; apply N.ltb_ge; rewrite Hll; apply N.le_refl).
  unfold bit_txn_delete. cbn [bit_seq bit_clen]. rewrite Hde2, Ed2, Ec2.
  replace (c <? bit_len bl) with false by (symmetry; apply N.ltb_ge; rewrite Hll; exact Hc).
  cbn [yib_bind bit_seq]. rewrite Hsd, Hr, Hll, N.sub_diag.
  change (yib_set_del bl true) with (yib_mk l true).
  change (yib_set_del bl true) with (yib_mk l true) in Hde3.
  cbn [bit_d_br bit_d_item bit_d_len bit_d_rel bit_d_end bit_seq bit_clen].
  rewrite Hde3. rewrite N.ltb_irrefl, andb_false_r. reflexivity.
Qed.

Lemma bit_del_inner_rel : forall fuel pre b r c len rel, bit_inv (pre ++ b :: r) -> bit_live b = true ->
  0 < rel -> rel < bit_len b -> 0 < len ->
  exists l rr, blk_split (yib_b b) rel = Some (l, rr) /\
    bit_delete_inner fuel (bit_mkd (bit_mkbranch (pre ++ b :: r) c) (Some (yib_id b)) len rel false) =
    bit_delete_inner fuel (bit_mkd (bit_mkbranch (pre ++ yib_mk l false :: yib_mk rr false :: r) c)
                                   (Some (yib_id (yib_mk rr false))) len 0 false).
Proof.
  intros fuel pre b r c len rel Hinv El H0 Hlt Hlen.
  destruct (bit_ids_distinct pre b r (proj1 Hinv)) as [Hd _].
  destruct (bit_del_live_flags b El) as [Ed Ec].
  pose proof (bit_deref_at pre b r Hd) as Hde.
  destruct (bit_clean_start_at pre b r rel Hinv H0 Hlt) as (l & rr & Es & Hcs & Hinv2 & _).
  exists l, rr. split; [exact Es|]. rewrite Ed in *.
  assert (Hokb : yib_blk_ok b = true).
  { apply (bit_inv_blk _ b Hinv). apply in_or_app. right. left. reflexivity. }
  destruct (bit_del_split_facts b rel l rr Hokb Es) as (_ & _ & _ & _ & _ & Lvr & _).
  destruct (bit_split_halves b rel l rr Hokb Es) as (_ & _ & Hidr & _).
  rewrite Ed in *.
  remember (yib_mk l false) as bl. remember (yib_mk rr false) as brr.
  assert (Hinv3 : bit_inv ((pre ++ [bl]) ++ brr :: r)) by (rewrite <- app_assoc; exact Hinv2).
  destruct (bit_ids_distinct _ brr r (proj1 Hinv3)) as [Hd3 _].
  pose proof (bit_deref_at _ brr r Hd3) as Hde3. rewrite <- app_assoc in Hde3. cbn [app] in Hde3.
  assert (El3 : bit_live brr = true) by (rewrite Lvr; exact El).
  destruct fuel as [|f]; [reflexivity|].
  cbn [bit_delete_inner bit_d_br bit_d_item bit_d_len bit_d_rel bit_d_end bit_seq bit_clen].
  rewrite Hde, Hde3.
  change (negb (yib_del b) && bit_countable b) with (bit_live b).
  change (negb (yib_del brr) && bit_countable brr) with (bit_live brr). rewrite El, El3.
  replace (0 <? len) with true by (symmetry; apply N.ltb_lt; exact Hlen).
  replace (0 <? rel) with true by (symmetry; apply N.ltb_lt; exact H0).
  rewrite N.ltb_irrefl. cbn [negb andb]. rewrite Hcs. cbn [yib_bind fst snd]. rewrite <- Hidr. reflexivity.
Qed.

Definition bit_del_Q (pre suf : yib_seq) (len c : N) (st1 : bit_dstate) : Prop :=
  (bit_d_len st1 = 0 /\ bit_seq (bit_d_br st1) = pre ++ bit_del_spec suf len /\ bit_clen (bit_d_br st1) = c - len) \/
  (exists D b' r' len', 0 < len' /\
     st1 = bit_mkd (bit_mkbranch (pre ++ D ++ b' :: r') (c - (len - len'))) (Some (yib_id b')) len' 0 false /\
     bit_live b' = false /\ len' <= len /\ len' <= bit_vlen r' /\
     bit_del_spec suf len = D ++ bit_del_spec (b' :: r') len' /\ (length r' < length suf)%nat /\
     bit_inv (pre ++ D ++ b' :: r') /\
     bit_vlen (pre ++ D ++ b' :: r') = bit_vlen (pre ++ suf) - (len - len')).

Lemma bit_del_spec_full : forall b r len, len <> 0 -> bit_live b = true -> bit_len b <= len ->
  bit_del_spec (b :: r) len = yib_set_del b true :: bit_del_spec r (len - bit_len b).
Proof.
  intros b r len H0 El Hge. cbn [bit_del_spec]. rewrite El.
  replace (len =? 0) with false by (symmetry; apply N.eqb_neq; exact H0).
  replace (len <? bit_len b) with false by (symmetry; apply N.ltb_ge; exact Hge). reflexivity.
Qed.

Lemma bit_del_inner_spec : forall n r b pre len c fuel, length r = n ->
  bit_inv (pre ++ b :: r) -> c = bit_vlen (pre ++ b :: r) -> len <= bit_vlen (b :: r) ->
  (length r + 2 <= fuel)%nat ->
  exists st1, bit_delete_inner fuel (bit_mkd (bit_mkbranch (pre ++ b :: r) c) (Some (yib_id b)) len 0 false)
              = yib_ok st1 /\ bit_del_Q pre (b :: r) len c st1.
Proof.
  induction n as [n IH] using lt_wf_ind. intros r b pre len c fuel Hn Hinv Hc Hlen Hfuel.
  destruct fuel as [|[|f]]; try lia.
  destruct (bit_ids_distinct pre b r (proj1 Hinv)) as [Hd _].
  pose proof (bit_deref_at pre b r Hd) as Hde.
  assert (Hcv : c = bit_vlen pre + ((if bit_live b then bit_len b else 0) + bit_vlen r)).
  { rewrite Hc, bit_vlen_app. reflexivity. }
  cbn [bit_vlen] in Hlen.
  destruct (bit_live b) eqn:El.
  2: { rewrite (bit_del_inner_dead _ _ _ _ b _ _ _ Hde El). eexists. split; [reflexivity|].
       destruct (N.eq_dec len 0) as [E|E].
       - left. subst len. cbn [bit_d_len bit_d_br bit_seq bit_clen]. rewrite bit_del_spec_zero, N.sub_0_r.
         repeat split.
       - right. exists [], b, r, len. cbn [app]. rewrite N.sub_diag, !N.sub_0_r.
         split; [lia|]. split; [reflexivity|]. split; [exact El|]. split; [lia|]. split; [lia|].
         split; [reflexivity|]. split; [cbn [length]; lia|]. split; [exact Hinv|]. reflexivity. }
  destruct (N.eq_dec len 0) as [E|E].
  { subst len. rewrite (bit_del_inner_stop _ _ _ _ b _ _ Hde). eexists. split; [reflexivity|]. left.
    cbn [bit_d_len bit_d_br bit_seq bit_clen]. rewrite bit_del_spec_zero, N.sub_0_r. repeat split. }
  assert (E0 : (len =? 0) = false) by (apply N.eqb_neq; exact E).
  destruct (N.lt_ge_cases len (bit_len b)) as [Hlt|Hge].
  - destruct (bit_del_inner_step_split f pre b r c len Hinv El) as (l & rr & Es & Hrun); [lia|exact Hlt|lia|].
    rewrite Hrun. eexists. split; [reflexivity|]. left. cbn [bit_d_len bit_d_br bit_seq bit_clen].
    split; [reflexivity|]. split; [|reflexivity].
    cbn [bit_del_spec]. rewrite E0, El. replace (len <? bit_len b) with true by (symmetry; apply N.ltb_lt; exact Hlt).
    rewrite Es. destruct (bit_del_live_flags b El) as [-> _]. reflexivity.
  - assert (E1 : (len <? bit_len b) = false) by (apply N.ltb_ge; exact Hge).
    rewrite bit_del_inner_step_full; [|exact Hinv|exact El|lia|exact Hge|lia].
    destruct r as [|b2 r2]; cbn [yib_head_ptr].
    + cbn [bit_vlen] in Hlen. replace (len - bit_len b) with 0 by lia.
      eexists. split.
      { apply bit_del_inner_stop with (b := yib_set_del b true). exact (bit_deref_at pre (yib_set_del b true) [] Hd). }
      left. cbn [bit_d_len bit_d_br bit_seq bit_clen]. split; [reflexivity|]. split.
      * rewrite bit_del_spec_full by assumption. reflexivity.
      * f_equal. lia.
    + assert (Hinv2 : bit_inv ((pre ++ [yib_set_del b true]) ++ b2 :: r2)).
      { eapply bit_inv_same_blocks; [|exact Hinv]. rewrite <- app_assoc, !map_app. reflexivity. }
      assert (Hv2 : bit_vlen ((pre ++ [yib_set_del b true]) ++ b2 :: r2) = c - bit_len b).
      { rewrite !bit_vlen_app. cbn [bit_vlen]. replace (bit_live (yib_set_del b true)) with false by reflexivity.
        cbn [bit_vlen] in Hcv. lia. }
      cbn [length] in Hn, Hfuel.
      destruct (IH (length r2) ltac:(lia) r2 b2 (pre ++ [yib_set_del b true]) (len - bit_len b) (c - bit_len b) (S f)
                   eq_refl Hinv2) as (st1 & Hrun & HQ).
      { symmetry. exact Hv2. }
      { lia. }
      { lia. }
      rewrite <- app_assoc in Hrun. cbn [app] in Hrun. exists st1. split; [exact Hrun|].
      destruct HQ as [(Q1 & Q2 & Q3)|(D & b' & r' & len' & Q1 & Q2 & Q3 & Q4 & Q5 & Q6 & Q7 & Q8 & Q9)].
      * left. split; [exact Q1|]. split.
        -- rewrite Q2, <- app_assoc. rewrite (bit_del_spec_full b) by assumption. reflexivity.
        -- rewrite Q3. lia.
      * right. exists (yib_set_del b true :: D), b', r', len'.
        rewrite <- !app_assoc in Q2, Q8, Q9. cbn [app] in Q2, Q8, Q9 |- *.
        split; [exact Q1|]. split.
        { rewrite Q2. replace (c - bit_len b - (len - bit_len b - len')) with (c - (len - len')) by lia. reflexivity. }
        split; [exact Q3|]. split; [lia|]. split; [exact Q5|]. split.
        { rewrite (bit_del_spec_full b) by assumption. rewrite Q6. reflexivity. }
        split; [cbn [length] in *; lia|]. split; [exact Q8|].
        rewrite Q9. rewrite <- app_assoc in Hv2. cbn [app] in Hv2. rewrite <- app_assoc. cbn [app]. rewrite Hv2, <- Hc. lia.
Qed.

(* ================================================================================================ *)
(* 3. the outer loop                                                                                 *)
(* ================================================================================================ *)
Lemma bit_del_outer_zero : forall f index st, bit_d_len st = 0 -> bit_delete_outer (S f) index st = yib_ok st.
Proof. intros f index st H. cbn [bit_delete_outer]. rewrite H. reflexivity. Qed.

Lemma bit_del_outer_unfold : forall f index st st1, bit_d_len st <> 0 ->
  bit_delete_inner (bit_fuel (bit_seq (bit_d_br st))) st = yib_ok st1 ->
  bit_delete_outer (S f) index st =
  if 0 <? bit_d_len st1 then
    match bit_try_forward (bit_fuel (bit_seq (bit_d_br st1))) (bit_d_br st1)
                          (bit_mkiter index (bit_d_rel st1) (bit_d_item st1) (bit_d_end st1)) 0 with
    | yib_fail t => yib_fail t
    | yib_ok (false, _) => yib_fail 15
    | yib_ok (true, it2) =>
      bit_delete_outer f (bit_index it2)
                       (bit_mkd (bit_d_br st1) (bit_next it2) (bit_d_len st1) (bit_rel it2) (bit_end it2))
    end
  else bit_delete_outer f index st1.
Proof.
  intros f index st st1 H Hrun. cbn [bit_delete_outer].
  replace (bit_d_len st =? 0) with false by (symmetry; apply N.eqb_neq; exact H).
  rewrite Hrun. reflexivity.
Qed.

Lemma bit_del_outer_spec : forall n pre suf len c index fo st st1,
  (length suf <= n)%nat -> (n + 2 <= fo)%nat -> bit_d_len st = len -> 0 < len ->
  bit_delete_inner (bit_fuel (bit_seq (bit_d_br st))) st = yib_ok st1 -> bit_del_Q pre suf len c st1 ->
  index <= bit_vlen pre -> c = bit_vlen (pre ++ suf) ->
  exists st', bit_delete_outer fo index st = yib_ok st' /\
    bit_seq (bit_d_br st') = pre ++ bit_del_spec suf len /\ bit_clen (bit_d_br st') = c - len.
Proof.
  induction n as [n IH] using lt_wf_ind. intros pre suf len c index fo st st1 Hn Hfo Hlen H0 Hrun HQ Hidx Hc.
  destruct fo as [|f]; [lia|].
  rewrite (bit_del_outer_unfold f index st st1) by (try exact Hrun; lia).
  destruct HQ as [(Q1 & Q2 & Q3)|(D & b' & r' & len' & Q1 & Q2 & Q3 & Q4 & Q5 & Q6 & Q7 & Q8 & Q9)].
  - rewrite Q1, N.ltb_irrefl. destruct f as [|f]; [lia|]. rewrite bit_del_outer_zero by exact Q1.
    exists st1. repeat split; assumption.
  - subst st1. cbn [bit_d_len bit_d_br bit_d_item bit_d_rel bit_d_end bit_seq].
    replace (0 <? len') with true by (symmetry; apply N.ltb_lt; exact Q1).
    unfold bit_try_forward. cbn [bit_next bit_index bit_clen bit_seq bit_rel bit_end].
    assert (Hc1 : c - (len - len') = bit_vlen (pre ++ D ++ b' :: r')) by (rewrite Q9, Hc; reflexivity).
    replace (c - (len - len') <? index + 0) with false
      by (symmetry; apply N.ltb_ge; rewrite Hc1, bit_vlen_app; lia).
    change (if 0 =? 0 then 0 else 0 + 0) with 0.
    destruct (bit_forward_loop_spec r' (pre ++ D) b' 0 (bit_fuel (pre ++ D ++ b' :: r')))
      as (item & rel & re & Hfl & Hcase).
    { rewrite <- app_assoc. exact (proj1 Q8). }
    { unfold bit_fuel. rewrite !app_length. cbn [length]. lia. }
    { apply N.le_0_l. }
    rewrite <- app_assoc in Hfl. rewrite Hfl.
    replace (index + 0 <? 0) with false by (symmetry; apply N.ltb_ge; lia).
    cbn [bit_next bit_index bit_rel bit_end].
    destruct Hcase as [(P & b'' & S & E & -> & -> & L & R & V)|(P & b'' & E & -> & -> & -> & V)].
    2: { cbn [bit_vlen] in V. rewrite Q3 in V. lia. }
    assert (rel = 0) by lia. subst rel.
    destruct P as [|p0 P'].
    { cbn [app] in E. injection E as E1 E2. subst b''. rewrite L in Q3. discriminate. }
    cbn [app] in E. injection E as E1 E2. subst p0 r'.
    assert (Es : pre ++ D ++ b' :: P' ++ b'' :: S = (pre ++ D ++ b' :: P') ++ b'' :: S).
    { rewrite <- !app_assoc. reflexivity. }
    rewrite Es in *.
    assert (HvP : bit_vlen (b' :: P') = 0) by lia.
    rewrite bit_vlen_app in Q5. cbn [bit_vlen] in HvP. rewrite Q3 in HvP.
    destruct (bit_del_inner_spec (length S) S b'' (pre ++ D ++ b' :: P') len' (c - (len - len'))
                (bit_fuel ((pre ++ D ++ b' :: P') ++ b'' :: S)) eq_refl Q8 Hc1) as (st2 & Hrun2 & HQ2).
    { lia. }
    { unfold bit_fuel. rewrite !app_length. cbn [length]. lia. }
    destruct (IH (length (b'' :: S)) ltac:(rewrite app_length in Q7; cbn [length] in *; lia)
                 (pre ++ D ++ b' :: P') (b'' :: S) len' (c - (len - len')) (index + 0 - 0) f
                 (bit_mkd (bit_mkbranch ((pre ++ D ++ b' :: P') ++ b'' :: S) (c - (len - len')))
                          (Some (yib_id b'')) len' 0 false) st2 (le_n _)) as (st' & Ho & S1 & S2).
    { rewrite app_length in Q7. cbn [length] in *. lia. }
    { reflexivity. }
    { exact Q1. }
    { exact Hrun2. }
    { exact HQ2. }
    { rewrite !bit_vlen_app. lia. }
    { exact Hc1. }
    exists st'. split; [exact Ho|]. split.
    + rewrite S1, Q6.
      assert (Hokp : forallb yib_blk_ok (b' :: P') = true).
      { assert (H1 : bit_inv ((pre ++ D) ++ (b' :: P') ++ b'' :: S)).
        { rewrite <- Es in Q8. rewrite <- app_assoc. exact Q8. }
        destruct (bit_del_inv_parts _ _ H1) as (H2 & _). rewrite forallb_app in H2. apply andb_prop in H2. apply H2. }
      change (b' :: P' ++ b'' :: S) with ((b' :: P') ++ b'' :: S).
      rewrite (bit_del_spec_skip (b' :: P') (b'' :: S) len' Hokp).
      * rewrite <- !app_assoc. reflexivity.
      * cbn [bit_vlen]. rewrite Q3. exact HvP.
    + rewrite S2. lia.
Qed.

Lemma bit_del_spec_ncd : forall suf len, forallb yib_blk_ok suf = true ->
  bit_noncountable_deleted suf = true -> bit_noncountable_deleted (bit_del_spec suf len) = true.
Proof.
  unfold bit_noncountable_deleted.
  induction suf as [|b r IH]; intros len Hok H; [reflexivity|].
  cbn [forallb] in Hok, H. apply andb_prop in Hok. destruct Hok as [Hb Hr]. apply andb_prop in H. destruct H as [H1 H2].
  cbn [bit_del_spec]. destruct (len =? 0); [cbn [forallb]; rewrite H1, H2; reflexivity|].
  destruct (bit_live b).
  - destruct (len <? bit_len b).
    + destruct (blk_split (yib_b b) len) as [[l rr]|] eqn:Es; [|cbn [forallb]; rewrite H1, H2; reflexivity].
      destruct (bit_split_halves b len l rr Hb Es) as (_ & _ & _ & _ & _ & _ & _ & Hcr & _).
      cbn [forallb yib_del]. rewrite Hcr, H1, H2, orb_true_r. reflexivity.
    + cbn [forallb yib_set_del yib_del]. rewrite orb_true_r, IH by assumption. reflexivity.
  - cbn [forallb]. rewrite H1, IH by assumption. reflexivity.
Qed.

Lemma bit_del_ncd_app : forall pre suf len, forallb yib_blk_ok suf = true ->
  bit_noncountable_deleted (pre ++ suf) = true -> bit_noncountable_deleted (pre ++ bit_del_spec suf len) = true.
Proof.
  intros pre suf len Hok H. unfold bit_noncountable_deleted in *. rewrite forallb_app in *.
  apply andb_prop in H. destruct H as [H1 H2]. rewrite H1. apply (bit_del_spec_ncd suf len Hok H2).
Qed.

(* ================================================================================================ *)
(* 4. BlockIter::delete                                                                              *)
(* ================================================================================================ *)
Lemma bit_del_delete_gen : forall br it len,
  bit_inv (bit_seq br) -> bit_clen br = bit_vlen (bit_seq br) ->
  bit_at true (bit_seq br) (bit_index it) it -> bit_index it + len <= bit_clen br ->
  exists br' it', bit_delete br it len = yib_ok (br', it') /\
    bit_inv (bit_seq br') /\ bit_clen br' = bit_vlen (bit_seq br') /\ bit_clen br' = bit_clen br - len /\
    yib_expand (bit_seq br') = local_delete (N.to_nat (bit_index it)) (N.to_nat len) (yib_expand (bit_seq br)) /\
    (length (bit_seq br') <= length (bit_seq br) + 2)%nat /\
    (bit_noncountable_deleted (bit_seq br) = true -> bit_noncountable_deleted (bit_seq br') = true).
Proof.
  intros [s c] [ix rl nx en] len Hinv Hc Hat Hle. cbn [bit_seq bit_clen bit_index] in *. subst c.
  unfold bit_delete. cbn [bit_seq bit_clen bit_index bit_next bit_rel bit_end].
  replace (bit_vlen s <? ix + len) with false by (symmetry; apply N.ltb_ge; exact Hle).
  destruct (N.eq_dec len 0) as [->|Hne].
  { unfold bit_fuel. rewrite bit_del_outer_zero by reflexivity. cbn [yib_bind].
    eexists. eexists. split; [reflexivity|]. cbn [bit_seq bit_clen bit_d_br].
    split; [exact Hinv|]. split; [reflexivity|]. split; [lia|]. split; [|split; [lia|intros H; exact H]].
    cbn [N.to_nat]. rewrite bit_del_ld_zero. reflexivity. }
  destruct Hat as [P b S E Hl R N0 E0 V|P b E N0 E0 R V|E N0 E0 R V]; cbn [bit_next bit_rel bit_end] in *.
  2: { exfalso. lia. }
  2: { exfalso. subst s. cbn [bit_vlen] in Hle. lia. }
  destruct Hl as [Hl|[Hl _]]; [|discriminate]. subst s nx en.
  rewrite bit_vlen_app in Hle. cbn [bit_vlen] in Hle. rewrite Hl in Hle.
  assert (Hfin : forall pre suf st', bit_inv (pre ++ suf) -> yib_expand (pre ++ suf) = yib_expand (P ++ b :: S) ->
            bit_vlen (pre ++ suf) = bit_vlen (P ++ b :: S) -> len <= bit_vlen suf -> bit_vlen pre = ix ->
            (length (pre ++ suf) <= length (P ++ b :: S) + 1)%nat ->
            bit_seq (bit_d_br st') = pre ++ bit_del_spec suf len ->
            bit_clen (bit_d_br st') = bit_vlen (P ++ b :: S) - len ->
            (bit_noncountable_deleted (P ++ b :: S) = true -> bit_noncountable_deleted (pre ++ suf) = true) ->
            exists br' it',
              yib_ok (bit_d_br st', bit_mkiter ix (bit_d_rel st') (bit_d_item st') (bit_d_end st')) = yib_ok (br', it') /\
              bit_inv (bit_seq br') /\ bit_clen br' = bit_vlen (bit_seq br') /\
              bit_clen br' = bit_vlen (P ++ b :: S) - len /\
              yib_expand (bit_seq br') = local_delete (N.to_nat ix) (N.to_nat len) (yib_expand (P ++ b :: S)) /\
              (length (bit_seq br') <= length (P ++ b :: S) + 2)%nat /\
              (bit_noncountable_deleted (P ++ b :: S) = true -> bit_noncountable_deleted (bit_seq br') = true)).
  { intros pre suf st' F1 F2 F3 F4 F5 F6 S1 S2 F7.
    destruct (bit_del_final pre suf len (P ++ b :: S) F1 F2 F3 F4 F6) as (G1 & G2 & G3 & G4).
    eexists. eexists. split; [reflexivity|]. rewrite S1, S2. rewrite F5 in G3.
    split; [exact G1|]. split; [symmetry; exact G2|]. split; [reflexivity|]. split; [exact G3|]. split; [exact G4|].
    intros Hn. apply bit_del_ncd_app; [apply (bit_del_inv_parts pre suf F1)|apply F7; exact Hn]. }
  destruct (N.eq_dec rl 0) as [->|Hr].
  - destruct (bit_del_inner_spec (length S) S b P len (bit_vlen (P ++ b :: S)) (bit_fuel (P ++ b :: S))
                eq_refl Hinv eq_refl) as (st1 & Hrun & HQ).
    { cbn [bit_vlen]. rewrite Hl. lia. }
    { unfold bit_fuel. rewrite app_length. cbn [length]. lia. }
    destruct (bit_del_outer_spec (length (b :: S)) P (b :: S) len (bit_vlen (P ++ b :: S)) ix (bit_fuel (P ++ b :: S))
                (bit_mkd (bit_mkbranch (P ++ b :: S) (bit_vlen (P ++ b :: S))) (Some (yib_id b)) len 0 false) st1
                (le_n _)) as (st' & Ho & S1 & S2); try assumption; try reflexivity; try lia.
    { unfold bit_fuel. rewrite app_length. cbn [length]. lia. }
    rewrite Ho. cbn [yib_bind].
    apply (Hfin P (b :: S) st'); try assumption; try reflexivity; try lia; [|intros Hn; exact Hn].
    cbn [bit_vlen]. rewrite Hl. lia.
  - assert (H0 : 0 < rl) by lia.
    destruct (bit_del_inner_rel (bit_fuel (P ++ b :: S)) P b S (bit_vlen (P ++ b :: S)) len rl Hinv Hl H0 R)
      as (l & rr & Es & Hrel); [lia|].
    destruct (bit_clean_start_at P b S rl Hinv H0 R) as (l' & rr' & Es' & _ & Hinv2 & Hex2 & Hv2).
    rewrite Es in Es'. injection Es' as <- <-.
    destruct (bit_del_live_flags b Hl) as [Ed _]. rewrite Ed in *.
    assert (Hokb : yib_blk_ok b = true).
    { apply (bit_inv_blk _ b Hinv). apply in_or_app. right. left. reflexivity. }
    destruct (bit_del_split_facts b rl l rr Hokb Es) as (_ & _ & Hll & Hlr & Lvl & Lvr & _).
    rewrite Ed in *. rewrite Hl in Lvl, Lvr.
    assert (Ea : P ++ yib_mk l false :: yib_mk rr false :: S = (P ++ [yib_mk l false]) ++ yib_mk rr false :: S)
      by (rewrite <- app_assoc; reflexivity).
    rewrite Ea in *.
    destruct (bit_del_inner_spec (length S) S (yib_mk rr false) (P ++ [yib_mk l false]) len (bit_vlen (P ++ b :: S))
                (bit_fuel (P ++ b :: S)) eq_refl Hinv2 (eq_sym Hv2)) as (st1 & Hrun & HQ).
    { cbn [bit_vlen]. rewrite Lvr, Hlr. lia. }
    { unfold bit_fuel. rewrite app_length. cbn [length]. lia. }
    rewrite <- Hrel in Hrun.
    destruct (bit_del_outer_spec (length (yib_mk rr false :: S)) (P ++ [yib_mk l false]) (yib_mk rr false :: S) len
                (bit_vlen (P ++ b :: S)) ix (bit_fuel (P ++ b :: S))
                (bit_mkd (bit_mkbranch (P ++ b :: S) (bit_vlen (P ++ b :: S))) (Some (yib_id b)) len rl false) st1
                (le_n _)) as (st' & Ho & S1 & S2); try assumption; try reflexivity; try lia.
    { unfold bit_fuel. rewrite app_length. cbn [length]. lia. }
    { rewrite bit_vlen_app. cbn [bit_vlen]. rewrite Lvl, Hll. lia. }
    rewrite Ho. cbn [yib_bind].
    apply (Hfin (P ++ [yib_mk l false]) (yib_mk rr false :: S) st'); try assumption; try reflexivity; try lia.
    + cbn [bit_vlen]. rewrite Lvr, Hlr. lia.
    + rewrite bit_vlen_app. cbn [bit_vlen]. rewrite Lvl, Hll. lia.
    + rewrite !app_length. cbn [length]. lia.
    + intros Hn. unfold bit_noncountable_deleted in *. rewrite <- Ea. rewrite forallb_app in *. cbn [forallb] in *.
      apply andb_prop in Hn. destruct Hn as [N1 N2]. apply andb_prop in N2. destruct N2 as [N2 N3].
      destruct (bit_split_halves b rl l rr Hokb Es) as (_ & _ & _ & _ & _ & _ & Hcl & Hcr & _).
      rewrite Ed in Hcl, Hcr. rewrite Ed in N2. cbn [yib_del]. rewrite N1, N3, Hcl, Hcr, N2. reflexivity.
Qed.

(* the hypothesis bit_noncountable_deleted is not needed *)
Theorem bit_delete_spec : forall br it len,
  bit_inv (bit_seq br) -> bit_clen br = bit_vlen (bit_seq br) ->
  bit_at true (bit_seq br) (bit_index it) it -> bit_index it + len <= bit_clen br ->
  exists br' it', bit_delete br it len = yib_ok (br', it') /\
    bit_inv (bit_seq br') /\ bit_clen br' = bit_vlen (bit_seq br') /\ bit_clen br' = bit_clen br - len /\
    yib_expand (bit_seq br') = local_delete (N.to_nat (bit_index it)) (N.to_nat len) (yib_expand (bit_seq br)) /\
    (length (bit_seq br') <= length (bit_seq br) + 2)%nat.
Proof.
  intros br it len H1 H2 H3 H4.
  destruct (bit_del_delete_gen br it len H1 H2 H3 H4) as (br' & it' & G1 & G2 & G3 & G4 & G5 & G6 & _).
  exists br', it'. split; [exact G1|]. split; [exact G2|]. split; [exact G3|]. split; [exact G4|].
  split; [exact G5|exact G6].
Qed.

(* ... and it is preserved: the statement with it on both sides *)
Theorem bit_del_delete_spec_ncd : forall br it len,
  bit_inv (bit_seq br) -> bit_clen br = bit_vlen (bit_seq br) ->
  bit_noncountable_deleted (bit_seq br) = true ->
  bit_at true (bit_seq br) (bit_index it) it -> bit_index it + len <= bit_clen br ->
  exists br' it', bit_delete br it len = yib_ok (br', it') /\
    bit_inv (bit_seq br') /\ bit_clen br' = bit_vlen (bit_seq br') /\ bit_clen br' = bit_clen br - len /\
    bit_noncountable_deleted (bit_seq br') = true /\
    yib_expand (bit_seq br') = local_delete (N.to_nat (bit_index it)) (N.to_nat len) (yib_expand (bit_seq br)) /\
    (length (bit_seq br') <= length (bit_seq br) + 2)%nat.
Proof.
  intros br it len H1 H2 Hn H3 H4.
  destruct (bit_del_delete_gen br it len H1 H2 H3 H4) as (br' & it' & G1 & G2 & G3 & G4 & G5 & G6 & G7).
  exists br', it'. split; [exact G1|]. split; [exact G2|]. split; [exact G3|]. split; [exact G4|].
  split; [apply G7; exact Hn|]. split; [exact G5|exact G6].
Qed.

(* ================================================================================================ *)
(* 8b. BlockIter::slice, Array::get / to_json / iter *)


(* ---------- visible values ---------- *)
Definition bit_sl_vis (s : yib_seq) : list ucontent := contents (yib_expand s).

Lemma bit_sl_vis_app : forall a b, bit_sl_vis (a ++ b) = bit_sl_vis a ++ bit_sl_vis b.
Proof. intros. unfold bit_sl_vis. rewrite yib_expand_app, contents_app. reflexivity. Qed.

Lemma bit_sl_vis_cons : forall b r, yib_blk_ok b = true ->
  bit_sl_vis (b :: r) = (if bit_live b then bit_units b else []) ++ bit_sl_vis r.
Proof.
  intros. unfold bit_sl_vis. rewrite yib_expand_cons, contents_app, bit_contents_ditems by assumption. reflexivity.
Qed.

Lemma bit_sl_units_length : forall b, yib_blk_ok b = true -> length (bit_units b) = N.to_nat (bit_len b).
Proof. intros b H. destruct (bit_ditems_units b H) as (E & _ & L). rewrite <- E, map_length. exact L. Qed.

Lemma bit_sl_vis_length : forall s, forallb yib_blk_ok s = true -> length (bit_sl_vis s) = N.to_nat (bit_vlen s).
Proof. intros. unfold bit_sl_vis. rewrite contents_length. apply bit_live_count. assumption. Qed.

Lemma bit_sl_vis_nil : bit_sl_vis [] = [].
Proof. reflexivity. Qed.

(* ---------- lists ---------- *)
Lemma bit_sl_L1 : forall (T : Type) (U V : list T) r m, (r <= length U)%nat ->
  firstn (length U - r + m) (skipn r (U ++ V)) = skipn r U ++ firstn m V.
Proof.
  intros. rewrite skipn_app. replace (r - length U)%nat with 0%nat by lia. cbn [skipn].
  replace (length U - r)%nat with (length (skipn r U)) by (rewrite skipn_length; reflexivity).
  apply firstn_app_2.
Qed.

Lemma bit_sl_L2 : forall (T : Type) (U V : list T) r m, (r + m <= length U)%nat ->
  firstn m (skipn r (U ++ V)) = firstn m (skipn r U).
Proof.
  intros. rewrite skipn_app, firstn_app, skipn_length.
  replace (m - (length U - r))%nat with 0%nat by lia. cbn [firstn]. apply app_nil_r.
Qed.

Lemma bit_sl_L3 : forall (T : Type) (A C : list T) m k r, length A = (m + r)%nat ->
  firstn (m + k) (skipn r (A ++ C)) = firstn m (skipn r (A ++ C)) ++ firstn k C.
Proof.
  intros. rewrite skipn_app. replace (r - length A)%nat with 0%nat by lia. cbn [skipn].
  assert (L : length (skipn r A) = m) by (rewrite skipn_length; lia).
  rewrite <- L at 1. rewrite firstn_app_2. f_equal.
  rewrite firstn_app, L. replace (m - m)%nat with 0%nat by lia. cbn [firstn]. rewrite app_nil_r. rewrite <- L. symmetry. apply firstn_all.
Qed.

Lemma bit_sl_bool_cases : forall x : bool, x = true \/ x = false.
Proof. intros []; [left|right]; reflexivity. Qed.

(* ---------- the inner loop ---------- *)
Definition bit_sl_inner_post (b : yib_blk) (suf : yib_seq) (len rel : N) (item1 : option id) (len1 rel1 : N) (re1 : bool) : Prop :=
  (exists P b' S, b :: suf = P ++ b' :: S /\ re1 = false /\ item1 = Some (yib_id b') /\ rel1 < bit_len b' /\
     bit_vlen P + rel1 + len1 = len + rel /\
     ((len1 = 0 /\ (bit_live b' = true \/ rel1 = 0)) \/ (0 < len1 /\ bit_countable b' = false /\ rel1 = 0))) \/
  (exists P b', b :: suf = P ++ [b'] /\ re1 = true /\ item1 = Some (yib_id b') /\ rel1 = 0 /\ len1 = 0 /\
     bit_vlen (b :: suf) = len + rel).

Definition bit_sl_inner_goal (fuel : nat) (pre : yib_seq) (b : yib_blk) (suf : yib_seq) (len rel : N) (buf : list ucontent) : Prop :=
  exists item1 len1 rel1 re1,
    bit_slice_inner fuel (pre ++ b :: suf) (bit_mks (Some (yib_id b)) len rel false buf)
    = yib_ok (bit_mks item1 len1 rel1 re1
                (buf ++ firstn (N.to_nat (len - len1)) (skipn (N.to_nat rel) (bit_sl_vis (b :: suf))))) /\
    len1 <= len /\ bit_sl_inner_post b suf len rel item1 len1 rel1 re1.

Lemma bit_sl_blk_ok : forall pre b suf, yib_seq_inv (pre ++ b :: suf) -> yib_blk_ok b = true.
Proof.
  intros pre b suf (Hok & _). eapply yib_forallb_In; [exact Hok|]. apply in_or_app. right. left. reflexivity.
Qed.

Lemma bit_sl_not_live_rel : forall b rel, bit_live b = false -> (bit_live b = true \/ rel = 0) -> rel = 0.
Proof. intros b rel H [H1|H1]; [congruence|exact H1]. Qed.

(* the iterations that do not move to the right *)
Lemma bit_sl_inner_stay : forall pre b suf len rel buf fuel,
  yib_seq_inv (pre ++ b :: suf) -> (2 <= fuel)%nat ->
  rel < bit_len b -> (bit_live b = true \/ rel = 0) -> len + rel <= bit_vlen (b :: suf) ->
  (len = 0 \/ bit_countable b = false \/ (bit_live b = true /\ len + rel < bit_len b)) ->
  bit_sl_inner_goal fuel pre b suf len rel buf.
Proof.
  intros pre b suf len rel buf fuel Hinv Hfuel Hrel Hlr Hlen Hcase.
  pose proof (bit_sl_blk_ok _ _ _ Hinv) as Hokb.
  destruct (bit_ids_distinct pre b suf Hinv) as [Hd _].
  pose proof (bit_deref_at pre b suf Hd) as Hde.
  unfold bit_sl_inner_goal.
  destruct fuel as [|f]; [lia|].
  cbn [bit_slice_inner bit_s_item bit_s_len bit_s_rel bit_s_end bit_s_buf]. rewrite Hde.
  destruct (N.eq_dec len 0) as [->|Hn0].
  - replace (0 <? 0) with false by reflexivity. rewrite andb_false_r.
    exists (Some (yib_id b)), 0, rel, false. split; [|split].
    + rewrite N.sub_diag. cbn [N.to_nat firstn]. rewrite app_nil_r. reflexivity.
    + lia.
    + left. exists [], b, suf. cbn [app bit_vlen]. repeat split; try assumption; try lia. left. split; [reflexivity|exact Hlr].
  - destruct Hcase as [->|[Ec|[Hl Hlt]]]; [contradiction| |].
    + rewrite Ec. cbn [andb].
      assert (Hnl : bit_live b = false) by (unfold bit_live; rewrite Ec; apply andb_false_r).
      pose proof (bit_sl_not_live_rel b rel Hnl Hlr) as ->.
      exists (Some (yib_id b)), len, 0, false. split; [|split].
      * rewrite N.sub_diag. cbn [N.to_nat firstn]. rewrite app_nil_r. reflexivity.
      * lia.
      * left. exists [], b, suf. cbn [app bit_vlen]. repeat split; try assumption; try lia. right. repeat split; try assumption. lia.
    + pose proof Hl as Hl0. unfold bit_live in Hl0. apply andb_prop in Hl0. destruct Hl0 as [Ed Ec].
      apply negb_true_iff in Ed. rewrite Ec, Ed.
      replace (0 <? len) with true by (symmetry; apply N.ltb_lt; lia). cbn [negb andb]. cbv zeta.
      pose proof (bit_sl_units_length b Hokb) as HU.
      assert (Er : N.of_nat (length (bit_read b rel len)) = len).
      { unfold bit_read. rewrite firstn_length, skipn_length, HU. lia. }
      rewrite Er. rewrite N.ltb_irrefl.
      replace (rel + len =? bit_len b) with false by (symmetry; apply N.eqb_neq; lia).
      destruct f as [|f]; [lia|].
      cbn [bit_slice_inner bit_s_item bit_s_len bit_s_rel bit_s_end bit_s_buf]. rewrite Hde.
      rewrite N.sub_diag. replace (0 <? 0) with false by reflexivity. rewrite andb_false_r.
      exists (Some (yib_id b)), 0, (rel + len), false. split; [|split].
      * rewrite N.sub_0_r, bit_sl_vis_cons by exact Hokb. rewrite Hl. rewrite bit_sl_L2 by (rewrite HU; lia).
        reflexivity.
      * lia.
      * left. exists [], b, suf. cbn [app bit_vlen]. repeat split; try lia. left. split; [reflexivity|left; exact Hl].
Qed.

(* one iteration that moves to the right *)
Lemma bit_sl_inner_move : forall pre b suf len rel buf f,
  yib_seq_inv (pre ++ b :: suf) -> rel < bit_len b -> (bit_live b = true \/ rel = 0) ->
  0 < len -> bit_countable b = true -> (bit_live b = true -> bit_len b <= len + rel) ->
  bit_slice_inner (S f) (pre ++ b :: suf) (bit_mks (Some (yib_id b)) len rel false buf) =
  let len' := if bit_live b then len - (bit_len b - rel) else len in
  let buf' := buf ++ (if bit_live b then skipn (N.to_nat rel) (bit_units b) else []) in
  match suf with
  | b2 :: _ => bit_slice_inner f (pre ++ b :: suf) (bit_mks (Some (yib_id b2)) len' 0 false buf')
  | [] => bit_slice_inner f (pre ++ b :: suf) (bit_mks (Some (yib_id b)) len' 0 true buf')
  end.
Proof.
  intros pre b suf len rel buf f Hinv Hrel Hlr H0 Ec Hge.
  pose proof (bit_sl_blk_ok _ _ _ Hinv) as Hokb.
  destruct (bit_ids_distinct pre b suf Hinv) as [Hd _].
  cbn [bit_slice_inner bit_s_item bit_s_len bit_s_rel bit_s_end bit_s_buf].
  rewrite (bit_deref_at pre b suf Hd), (bit_right_at pre b suf Hd), Ec.
  replace (0 <? len) with true by (symmetry; apply N.ltb_lt; lia). cbn [negb andb]. cbv zeta.
  unfold bit_live in *. rewrite Ec in *. rewrite andb_true_r in *.
  destruct (yib_del b) eqn:Ed; cbn [negb] in *.
  - assert (rel = 0) by (destruct Hlr as [?|?]; [discriminate|assumption]). subst rel.
    rewrite app_nil_r. destruct suf; reflexivity.
  - specialize (Hge eq_refl). pose proof (bit_sl_units_length b Hokb) as HU.
    assert (Ev : bit_read b rel len = skipn (N.to_nat rel) (bit_units b)).
    { unfold bit_read. apply firstn_all2. rewrite skipn_length, HU. lia. }
    rewrite Ev.
    assert (Er : N.of_nat (length (skipn (N.to_nat rel) (bit_units b))) = bit_len b - rel).
    { rewrite skipn_length, HU. lia. }
    rewrite Er.
    replace (len <? bit_len b - rel) with false by (symmetry; apply N.ltb_ge; lia).
    replace (rel + (bit_len b - rel) =? bit_len b) with true by (symmetry; apply N.eqb_eq; lia).
    destruct suf; reflexivity.
Qed.

Lemma bit_sl_buf_move : forall b suf len rel len1 (buf : list ucontent),
  yib_blk_ok b = true -> rel < bit_len b -> (bit_live b = true \/ rel = 0) ->
  (bit_live b = true -> bit_len b <= len + rel) ->
  len1 <= (if bit_live b then len - (bit_len b - rel) else len) ->
  (buf ++ (if bit_live b then skipn (N.to_nat rel) (bit_units b) else [])) ++
    firstn (N.to_nat ((if bit_live b then len - (bit_len b - rel) else len) - len1)) (skipn (N.to_nat 0) (bit_sl_vis suf))
  = buf ++ firstn (N.to_nat (len - len1)) (skipn (N.to_nat rel) (bit_sl_vis (b :: suf))).
Proof.
  intros b suf len rel len1 buf Hokb Hrel Hlr Hge Hl1. rewrite bit_sl_vis_cons by exact Hokb.
  pose proof (bit_sl_units_length b Hokb) as HU. cbn [N.to_nat skipn].
  destruct (bit_live b).
  - specialize (Hge eq_refl). rewrite <- app_assoc. f_equal.
    replace (N.to_nat (len - len1)) with (length (bit_units b) - N.to_nat rel + N.to_nat (len - (bit_len b - rel) - len1))%nat
      by (rewrite HU; lia).
    rewrite bit_sl_L1 by (rewrite HU; lia). reflexivity.
  - assert (rel = 0) by (destruct Hlr as [?|?]; [discriminate|assumption]). subst rel.
    rewrite app_nil_r. reflexivity.
Qed.

Lemma bit_sl_inner_spec : forall suf pre b len rel buf fuel,
  yib_seq_inv (pre ++ b :: suf) -> (length suf + 2 <= fuel)%nat ->
  rel < bit_len b -> (bit_live b = true \/ rel = 0) -> len + rel <= bit_vlen (b :: suf) ->
  bit_sl_inner_goal fuel pre b suf len rel buf.
Proof.
  induction suf as [|b2 suf2 IH]; intros pre b len rel buf fuel Hinv Hfuel Hrel Hlr Hlen.
  - (* last block *)
    destruct (N.eq_dec len 0) as [E0|E0]; [apply bit_sl_inner_stay; try assumption; try (cbn [length] in Hfuel; lia); left; exact E0|].
    destruct (bit_countable b) eqn:Ec; [|apply bit_sl_inner_stay; try assumption; try (cbn [length] in Hfuel; lia); right; left; exact Ec].
    destruct (bit_sl_bool_cases (bit_live b)) as [El|El].
    2:{ cbn [bit_vlen] in Hlen. rewrite El in Hlen. lia. }
    destruct (len + rel <? bit_len b) eqn:Elt.
    { apply N.ltb_lt in Elt. apply bit_sl_inner_stay; try assumption; try (cbn [length] in Hfuel; lia); right; right; split; assumption. }
    apply N.ltb_ge in Elt.
    pose proof (bit_sl_blk_ok _ _ _ Hinv) as Hokb.
    destruct (bit_ids_distinct pre b [] Hinv) as [Hd _].
    cbn [bit_vlen] in Hlen. rewrite El in Hlen.
    destruct fuel as [|[|f]]; cbn [length] in Hfuel; try lia.
    unfold bit_sl_inner_goal.
    rewrite bit_sl_inner_move; try assumption; try lia. cbv zeta. rewrite El.
    cbn [bit_slice_inner bit_s_item bit_s_len bit_s_rel bit_s_end bit_s_buf].
    rewrite (bit_deref_at pre b [] Hd), Ec. cbn [negb andb].
    exists (Some (yib_id b)), 0, 0, true. split; [|split].
    + replace (len - (bit_len b - rel)) with 0 by lia.
      pose proof (bit_sl_buf_move b [] len rel 0 buf Hokb Hrel Hlr) as Hb. rewrite El in Hb.
      rewrite <- Hb; [|intros _; exact Elt|lia].
      rewrite bit_sl_vis_nil. cbn [N.to_nat skipn]. rewrite firstn_nil, app_nil_r. reflexivity.
    + lia.
    + right. exists [], b. cbn [app bit_vlen]. rewrite El. repeat split. lia.
  - destruct (N.eq_dec len 0) as [E0|E0]; [apply bit_sl_inner_stay; try assumption; try (cbn [length] in Hfuel; lia); left; exact E0|].
    destruct (bit_countable b) eqn:Ec; [|apply bit_sl_inner_stay; try assumption; try (cbn [length] in Hfuel; lia); right; left; exact Ec].
    assert (Hstay : bit_live b = true -> len + rel < bit_len b -> bit_sl_inner_goal fuel pre b (b2 :: suf2) len rel buf).
    { intros. apply bit_sl_inner_stay; try assumption; try (cbn [length] in Hfuel; lia); right; right; split; assumption. }
    destruct (bit_sl_bool_cases (bit_live b)) as [El|El]; [destruct (len + rel <? bit_len b) eqn:Elt; [apply Hstay; [exact El|apply N.ltb_lt; exact Elt]|]|].
    + (* live, read to the end of the block *)
      apply N.ltb_ge in Elt. clear Hstay.
      pose proof (bit_sl_blk_ok _ _ _ Hinv) as Hokb.
      assert (Hinv2 : yib_seq_inv ((pre ++ [b]) ++ b2 :: suf2)) by (rewrite <- app_assoc; exact Hinv).
      pose proof (bit_sl_blk_ok _ _ _ Hinv2) as Hokb2.
      destruct fuel as [|f]; cbn [length] in Hfuel; try lia.
      change (bit_vlen (b :: b2 :: suf2)) with ((if bit_live b then bit_len b else 0) + bit_vlen (b2 :: suf2)) in Hlen.
      rewrite El in Hlen.
      destruct (IH (pre ++ [b]) b2 (len - (bit_len b - rel)) 0 (buf ++ skipn (N.to_nat rel) (bit_units b)) f Hinv2)
        as (item1 & len1 & rel1 & re1 & Hrun & Hle1 & Hpost).
      { lia. } { unfold bit_len. apply bit_blk_len_pos. exact Hokb2. } { right. reflexivity. } { lia. }
      rewrite <- app_assoc in Hrun. cbn [app] in Hrun.
      unfold bit_sl_inner_goal.
      rewrite bit_sl_inner_move; try assumption; try lia. cbv zeta. rewrite El.
      exists item1, len1, rel1, re1. split; [|split].
      * rewrite Hrun. f_equal. f_equal.
        pose proof (bit_sl_buf_move b (b2 :: suf2) len rel len1 buf Hokb Hrel Hlr) as Hb. rewrite El in Hb.
        apply Hb; [intros _; exact Elt|exact Hle1].
      * lia.
      * destruct Hpost as [(P & b' & S & E & -> & -> & R & V & C)|(P & b' & E & -> & -> & -> & -> & V)].
        -- left. exists (b :: P), b', S. rewrite E. cbn [app bit_vlen]. rewrite El. repeat split; try assumption. lia.
        -- right. exists (b :: P), b'. rewrite E. cbn [app]. repeat split.
           rewrite <- E. change (bit_vlen (b :: b2 :: suf2)) with ((if bit_live b then bit_len b else 0) + bit_vlen (b2 :: suf2)).
           rewrite El. lia.
    + (* deleted countable block *)
      clear Hstay.
      pose proof (bit_sl_blk_ok _ _ _ Hinv) as Hokb.
      assert (Hinv2 : yib_seq_inv ((pre ++ [b]) ++ b2 :: suf2)) by (rewrite <- app_assoc; exact Hinv).
      pose proof (bit_sl_blk_ok _ _ _ Hinv2) as Hokb2.
      destruct fuel as [|f]; cbn [length] in Hfuel; try lia.
      change (bit_vlen (b :: b2 :: suf2)) with ((if bit_live b then bit_len b else 0) + bit_vlen (b2 :: suf2)) in Hlen.
      rewrite El in Hlen.
      pose proof (bit_sl_not_live_rel b rel El Hlr) as Hr0.
      destruct (IH (pre ++ [b]) b2 len 0 (buf ++ []) f Hinv2)
        as (item1 & len1 & rel1 & re1 & Hrun & Hle1 & Hpost).
      { lia. } { unfold bit_len. apply bit_blk_len_pos. exact Hokb2. } { right. reflexivity. } { lia. }
      rewrite <- app_assoc in Hrun. cbn [app] in Hrun.
      unfold bit_sl_inner_goal.
      rewrite bit_sl_inner_move; try assumption; try lia; try (intros Hx; congruence). cbv zeta. rewrite El.
      exists item1, len1, rel1, re1. split; [|split].
      * rewrite Hrun. f_equal. f_equal.
        pose proof (bit_sl_buf_move b (b2 :: suf2) len rel len1 buf Hokb Hrel Hlr) as Hb. rewrite El in Hb.
        apply Hb; [intros Hx; discriminate|exact Hle1].
      * lia.
      * destruct Hpost as [(P & b' & S & E & -> & -> & R & V & C)|(P & b' & E & -> & -> & -> & -> & V)].
        -- left. exists (b :: P), b', S. rewrite E. cbn [app bit_vlen]. rewrite El. repeat split; try assumption. lia.
        -- right. exists (b :: P), b'. rewrite E. cbn [app]. repeat split.
           rewrite <- E. change (bit_vlen (b :: b2 :: suf2)) with ((if bit_live b then bit_len b else 0) + bit_vlen (b2 :: suf2)).
           rewrite El. lia.
Qed.

(* ---------- the outer loop ---------- *)
Lemma bit_sl_outer_spec : forall n suf, (length suf < n)%nat -> forall pre b len rel buf index fuel br,
  bit_seq br = pre ++ b :: suf -> bit_inv (bit_seq br) -> bit_clen br = bit_vlen (bit_seq br) ->
  index <= bit_clen br -> (length suf + 2 <= fuel)%nat ->
  rel < bit_len b -> (bit_live b = true \/ rel = 0) -> len + rel <= bit_vlen (b :: suf) ->
  exists it', bit_slice_outer fuel br index (bit_mks (Some (yib_id b)) len rel false buf)
    = yib_ok (it', buf ++ firstn (N.to_nat len) (skipn (N.to_nat rel) (bit_sl_vis (b :: suf)))) /\
    bit_index it' = index /\ bit_at false (bit_seq br) (bit_vlen pre + rel + len) it'.
Proof.
  induction n as [|n IHn];
  intros suf Hn pre b len rel buf index fuel br Hs Hinv Hclen Hidx Hfuel Hrel Hlr Hlen; [lia|].
  pose proof Hinv as [Hsi Hns]. rewrite Hs in Hsi.
  destruct fuel as [|f]; [lia|].
  cbn [bit_slice_outer bit_s_item bit_s_len bit_s_rel bit_s_end bit_s_buf].
  destruct (len =? 0) eqn:E0.
  { apply N.eqb_eq in E0. subst len. eexists. split; [|split].
    - cbn [N.to_nat firstn]. rewrite app_nil_r. reflexivity.
    - reflexivity.
    - rewrite Hs. apply (bit_at_blk false _ _ _ pre b suf); cbn [bit_rel bit_next bit_end]; try reflexivity; try assumption.
      + destruct Hlr as [?|?]; [left; assumption|right; split; [reflexivity|assumption]].
      + lia. }
  apply N.eqb_neq in E0. cbn [negb].
  destruct (bit_sl_inner_spec suf pre b len rel buf (bit_fuel (bit_seq br) + N.to_nat len) Hsi)
    as (item1 & len1 & rel1 & re1 & Hrun & Hle1 & Hpost); try assumption.
  { unfold bit_fuel. rewrite Hs, app_length. cbn [length]. lia. }
  rewrite <- Hs in Hrun. rewrite Hrun. cbn [yib_bind bit_s_item bit_s_len bit_s_rel bit_s_end bit_s_buf].
  assert (Hdone : len1 = 0 -> bit_at false (bit_seq br) (bit_vlen pre + rel + len) (bit_mkiter index rel1 item1 re1) ->
    exists it',
      (if negb re1 && (0 <? len1)
       then match bit_try_forward (bit_fuel (bit_seq br)) br (bit_mkiter index rel1 item1 re1) 0 with
            | yib_ok (okf, it2) =>
                if negb okf || match bit_next it2 with Some _ => false | None => true end
                then yib_ok (it2, buf ++ firstn (N.to_nat (len - len1)) (skipn (N.to_nat rel) (bit_sl_vis (b :: suf))))
                else bit_slice_outer f br (bit_index it2)
                       (bit_mks (bit_next it2) len1 (bit_rel it2) (bit_end it2)
                          (buf ++ firstn (N.to_nat (len - len1)) (skipn (N.to_nat rel) (bit_sl_vis (b :: suf)))))
            | yib_fail t => yib_fail t
            end
       else bit_slice_outer f br index
              (bit_mks item1 len1 rel1 re1 (buf ++ firstn (N.to_nat (len - len1)) (skipn (N.to_nat rel) (bit_sl_vis (b :: suf))))))
      = yib_ok (it', buf ++ firstn (N.to_nat len) (skipn (N.to_nat rel) (bit_sl_vis (b :: suf)))) /\
      bit_index it' = index /\ bit_at false (bit_seq br) (bit_vlen pre + rel + len) it').
  { intros -> Hat. replace (0 <? 0) with false by reflexivity. rewrite andb_false_r.
    destruct f as [|f]; [lia|]. cbn [bit_slice_outer bit_s_item bit_s_len bit_s_rel bit_s_end bit_s_buf].
    replace (0 =? 0) with true by reflexivity. rewrite N.sub_0_r.
    eexists. split; [reflexivity|]. split; [reflexivity|exact Hat]. }
  destruct Hpost as [(P & b' & S & E & -> & -> & R & V & [[-> C]|(Hpos & Hnc & ->)])|(P & b' & E & -> & -> & -> & -> & V)].
  - (* finished inside / at the start of a block *)
    apply Hdone; [reflexivity|].
    apply (bit_at_blk false _ _ _ (pre ++ P) b' S); cbn [bit_rel bit_next bit_end]; try reflexivity; try assumption.
    + rewrite Hs, E, app_assoc. reflexivity.
    + destruct C as [?|?]; [left; assumption|right; split; [reflexivity|assumption]].
    + rewrite bit_vlen_app. lia.
  - (* stopped at a block that is not countable *)
    cbn [negb andb]. replace (0 <? len1) with true by (symmetry; apply N.ltb_lt; exact Hpos).
    assert (Hs2 : bit_seq br = (pre ++ P) ++ b' :: S) by (rewrite Hs, E, app_assoc; reflexivity).
    assert (Hsi2 : yib_seq_inv ((pre ++ P) ++ b' :: S)) by (rewrite <- Hs2; apply Hinv).
    destruct (bit_forward_loop_spec S (pre ++ P) b' 0 (bit_fuel (bit_seq br)) Hsi2) as (item & rel2 & re & Hfl & Hc).
    { unfold bit_fuel. rewrite Hs2, app_length. cbn [length]. lia. }
    { lia. }
    rewrite <- Hs2 in Hfl.
    unfold bit_try_forward. cbn [bit_next bit_index bit_rel bit_end].
    replace (bit_clen br <? index + 0) with false by (symmetry; apply N.ltb_ge; lia).
    replace (0 =? 0) with true by reflexivity. rewrite Hfl.
    replace (index + 0 <? 0) with false by (symmetry; apply N.ltb_ge; lia).
    replace (index + 0 - 0) with index by lia.
    assert (HvS : bit_vlen (b :: suf) = bit_vlen P + bit_vlen (b' :: S)) by (rewrite E, bit_vlen_app; reflexivity).
    destruct Hc as [(P' & b'' & S' & E' & -> & -> & L & R' & V')|(P' & b'' & E' & -> & -> & -> & V')]; [|lia].
    cbn [negb orb bit_next bit_index bit_rel bit_end].
    assert (rel2 = 0) by lia. subst rel2.
    assert (HP' : P' <> []).
    { intros ->. cbn [app] in E'. injection E' as <- _. unfold bit_live in L. rewrite Hnc in L. rewrite andb_false_r in L. discriminate. }
    assert (HlenS : (length S' < length suf)%nat).
    { pose proof (f_equal (@length _) E) as L1. pose proof (f_equal (@length _) E') as L2.
      rewrite app_length in L1, L2. cbn [length] in L1, L2. destruct P'; [congruence|]. cbn [length] in L2. lia. }
    assert (Hs3 : bit_seq br = ((pre ++ P) ++ P') ++ b'' :: S').
    { rewrite Hs2, E'. rewrite <- !app_assoc. reflexivity. }
    destruct (IHn S' ltac:(lia) ((pre ++ P) ++ P') b'' len1 0
                (buf ++ firstn (N.to_nat (len - len1)) (skipn (N.to_nat rel) (bit_sl_vis (b :: suf)))) index f br Hs3 Hinv Hclen Hidx)
      as (it' & Hrun' & Hix' & Hat'); try assumption.
    { lia. } { left. exact L. }
    { rewrite E', bit_vlen_app in HvS. lia. }
    exists it'. split; [|split; [exact Hix'|]].
    + rewrite Hrun'. f_equal. f_equal. rewrite <- app_assoc. f_equal.
      assert (Hall : forallb yib_blk_ok (P ++ P') = true).
      { destruct Hsi as (Hok & _). rewrite E, E' in Hok. rewrite !forallb_app in Hok. rewrite forallb_app.
        apply andb_prop in Hok. destruct Hok as [_ Hok]. apply andb_prop in Hok. destruct Hok as [H1 Hok].
        apply andb_prop in Hok. destruct Hok as [H2 _]. rewrite H1, H2. reflexivity. }
      assert (Evis : bit_sl_vis (b :: suf) = bit_sl_vis (P ++ P') ++ bit_sl_vis (b'' :: S')).
      { rewrite E, E'. rewrite app_assoc. apply bit_sl_vis_app. }
      rewrite Evis. cbn [N.to_nat skipn].
      replace (N.to_nat len) with (N.to_nat (len - len1) + N.to_nat len1)%nat by lia.
      symmetry. apply bit_sl_L3. rewrite bit_sl_vis_length by exact Hall. rewrite bit_vlen_app. lia.
    + replace (bit_vlen pre + rel + len) with (bit_vlen ((pre ++ P) ++ P') + 0 + len1); [exact Hat'|].
      rewrite !bit_vlen_app. lia.
  - (* finished at the end of the list *)
    apply Hdone; [reflexivity|].
    apply (bit_at_end false _ _ _ (pre ++ P) b'); cbn [bit_rel bit_next bit_end]; try reflexivity.
    + rewrite Hs, E, app_assoc. reflexivity.
    + rewrite Hs, bit_vlen_app. lia.
Qed.

Lemma bit_sl_skipn_app : forall (T : Type) (A X : list T) r, skipn (length A + r) (A ++ X) = skipn r X.
Proof.
  intros. rewrite skipn_app. rewrite skipn_all2 by lia. cbn [app]. f_equal. lia.
Qed.

Theorem bit_slice_spec : forall br it n,
  bit_inv (bit_seq br) -> bit_clen br = bit_vlen (bit_seq br) ->
  bit_at false (bit_seq br) (bit_index it) it -> bit_index it + n <= bit_clen br ->
  exists it', bit_slice br it n = yib_ok (it', firstn (N.to_nat n) (skipn (N.to_nat (bit_index it)) (contents (yib_expand (bit_seq br))))) /\
    bit_index it' = bit_index it + n /\ bit_at false (bit_seq br) (bit_index it') it'.
Proof.
  intros br it n Hinv Hc Hat Hle. unfold bit_slice.
  replace (bit_clen br <? bit_index it + n) with false by (symmetry; apply N.ltb_ge; exact Hle).
  destruct (N.eq_dec n 0) as [->|Hn0].
  { unfold bit_fuel. cbn [bit_slice_outer bit_s_item bit_s_len bit_s_rel bit_s_end bit_s_buf].
    replace (0 =? 0) with true by reflexivity.
    eexists. split; [reflexivity|]. cbn [bit_index]. split; [reflexivity|].
    rewrite N.add_0_r. destruct it as [ix rl nx en]. exact Hat. }
  destruct it as [ix rl nx en]. cbn [bit_index bit_next bit_rel bit_end] in *.
  destruct Hat as [P b S E Hl R N0 E0 V|P b E N0 E0 R V|E N0 E0 R V]; cbn [bit_next bit_rel bit_end] in *.
  - subst nx en.
    assert (HvS : bit_vlen (bit_seq br) = bit_vlen P + bit_vlen (b :: S)) by (rewrite E, bit_vlen_app; reflexivity).
    destruct (bit_sl_outer_spec (Datatypes.S (length S)) S ltac:(lia) P b n rl [] (ix + n) (bit_fuel (bit_seq br)) br E Hinv Hc Hle)
      as (it' & Hrun & Hix & Hat'); try assumption.
    { unfold bit_fuel. rewrite E, app_length. cbn [length]. lia. }
    { destruct Hl as [?|[_ ?]]; [left|right]; assumption. }
    { lia. }
    exists it'. split; [|split; [exact Hix|]].
    + rewrite Hrun. cbn [app]. f_equal. f_equal. f_equal.
      change (contents (yib_expand (bit_seq br))) with (bit_sl_vis (bit_seq br)).
      rewrite E, bit_sl_vis_app.
      assert (HokP : forallb yib_blk_ok P = true).
      { destruct Hinv as [(Hok & _) _]. rewrite E, forallb_app in Hok. apply andb_prop in Hok. apply Hok. }
      replace (N.to_nat ix) with (length (bit_sl_vis P) + N.to_nat rl)%nat by (rewrite bit_sl_vis_length by exact HokP; lia).
      symmetry. apply bit_sl_skipn_app.
    + rewrite Hix. replace (ix + n) with (bit_vlen P + rl + n) by lia. exact Hat'.
  - lia.
  - rewrite E in Hc. cbn [bit_vlen] in Hc. lia.
Qed.

Theorem bit_slice_beyond : forall br it n, bit_clen br < bit_index it + n -> bit_slice br it n = yib_ok (it, []).
Proof.
  intros br it n H. unfold bit_slice.
  replace (bit_clen br <? bit_index it + n) with true by (symmetry; apply N.ltb_lt; exact H). reflexivity.
Qed.

(* ---------- the callers ---------- *)
Lemma bit_sl_head_nth : forall (T : Type) (l : list T) i,
  match firstn 1 (skipn i l) with v :: _ => Some v | [] => None end = nth_error l i.
Proof.
  intros T l i. revert l. induction i as [|i IH]; intros [|x r]; cbn [skipn firstn nth_error]; try reflexivity. apply IH.
Qed.

Lemma bit_sl_vis_len_ok : forall br, bit_ok br = true ->
  length (contents (yib_expand (bit_seq br))) = N.to_nat (bit_clen br).
Proof.
  intros br H. destruct (bit_ok_inv br H) as [[(Hok & _) _] Hc]. rewrite Hc. apply (bit_sl_vis_length _ Hok).
Qed.

Theorem bit_get_refines_list : forall br i, bit_ok br = true ->
  bit_array_get br i = yib_ok (nth_error (contents (yib_expand (bit_seq br))) (N.to_nat i)).
Proof.
  intros br i Hok. destruct (bit_ok_inv br Hok) as [Hinv Hc]. pose proof (bit_sl_vis_len_ok br Hok) as Hlen.
  pose proof (bit_at_new br Hinv) as Hnew. unfold bit_array_get.
  destruct (N.le_gt_cases i (bit_clen br)) as [Hi|Hi].
  - destruct (bit_try_forward_spec br (bit_iter_new br) i Hinv Hc) as (w & Hrun & Hix & Hat).
    { exact Hnew. } { cbn. exact Hi. }
    rewrite Hrun. unfold bit_read_value.
    assert (Hixw : bit_index w = i) by (rewrite Hix; cbn; reflexivity).
    destruct (N.eq_dec i (bit_clen br)) as [He|Hne].
    + rewrite bit_slice_beyond by lia. cbn [yib_bind fst snd]. f_equal. symmetry. apply nth_error_None. lia.
    + destruct (bit_slice_spec br w 1 Hinv Hc (bit_at_weaken _ _ _ Hat)) as (it' & Hs & _); [lia|].
      rewrite Hs. cbn [yib_bind fst snd]. f_equal. rewrite Hixw.
      change (N.to_nat 1) with 1%nat. apply bit_sl_head_nth.
  - destruct (bit_try_forward_beyond br (bit_iter_new br) i) as (w & Hrun).
    { cbn. lia. } { cbn. exact Hi. }
    rewrite Hrun. f_equal. symmetry. apply nth_error_None. lia.
Qed.

Theorem bit_to_json_refines_list : forall br, bit_ok br = true ->
  bit_array_to_json br = yib_ok (contents (yib_expand (bit_seq br))).
Proof.
  intros br Hok. destruct (bit_ok_inv br Hok) as [Hinv Hc]. pose proof (bit_sl_vis_len_ok br Hok) as Hlen.
  unfold bit_array_to_json.
  destruct (bit_slice_spec br (bit_iter_new br) (bit_clen br) Hinv Hc (bit_at_new br Hinv)) as (it' & Hs & _).
  { cbn. lia. }
  rewrite Hs. cbn [yib_bind fst snd].
  replace (N.to_nat (bit_index (bit_iter_new br))) with 0%nat by reflexivity. cbn [skipn].
  rewrite firstn_all2 by lia.
  replace (N.of_nat (length (contents (yib_expand (bit_seq br)))) =? bit_clen br) with true
    by (symmetry; apply N.eqb_eq; lia).
  reflexivity.
Qed.

Lemma bit_sl_at_end_index : forall st s vis it, bit_at st s vis it -> bit_end it = true -> vis = bit_vlen s.
Proof.
  intros st s vis it H He. destruct H as [P b S E Hl R N0 E0 V|P b E N0 E0 R V|E N0 E0 R V].
  - congruence.
  - symmetry. exact V.
  - subst. reflexivity.
Qed.

Lemma bit_sl_skipn_step : forall (T : Type) (l : list T) i, (i < length l)%nat ->
  exists v, firstn 1 (skipn i l) = [v] /\ skipn i l = v :: skipn (Datatypes.S i) l.
Proof.
  intros T l i. revert l. induction i as [|i IH]; intros [|x r] H; cbn [length] in H; try lia.
  - exists x. split; reflexivity.
  - destruct (IH r) as (v & H1 & H2); [lia|]. exists v. split; [exact H1|]. exact H2.
Qed.

Lemma bit_sl_values_loop : forall br, bit_ok br = true -> forall k it acc fuel,
  bit_at false (bit_seq br) (bit_index it) it -> bit_index it + N.of_nat k = bit_clen br -> (k < fuel)%nat ->
  bit_values_loop fuel br it acc = yib_ok (acc ++ skipn (N.to_nat (bit_index it)) (contents (yib_expand (bit_seq br)))).
Proof.
  intros br Hok. destruct (bit_ok_inv br Hok) as [Hinv Hc]. pose proof (bit_sl_vis_len_ok br Hok) as Hlen.
  induction k as [|k IH]; intros it acc fuel Hat Hk Hfuel; (destruct fuel as [|f]; [lia|]); cbn [bit_values_loop]; unfold bit_finished.
  - replace (bit_index it =? bit_clen br) with true by (symmetry; apply N.eqb_eq; lia). rewrite orb_true_r.
    rewrite skipn_all2 by lia. rewrite app_nil_r. reflexivity.
  - destruct (bit_end it) eqn:Ee.
    { pose proof (bit_sl_at_end_index _ _ _ _ Hat Ee). lia. }
    replace (bit_index it =? bit_clen br) with false by (symmetry; apply N.eqb_neq; lia). cbn [orb].
    unfold bit_read_value.
    destruct (bit_slice_spec br it 1 Hinv Hc Hat) as (it' & Hs & Hix & Hat'); [lia|].
    rewrite Hs. cbn [yib_bind fst snd]. change (N.to_nat 1) with 1%nat.
    destruct (bit_sl_skipn_step _ (contents (yib_expand (bit_seq br))) (N.to_nat (bit_index it))) as (v & H1 & H2); [lia|].
    rewrite H1. rewrite (IH it' (acc ++ [v]) f Hat'); [|lia|lia].
    rewrite H2, Hix, <- app_assoc. cbn [app]. f_equal. f_equal. f_equal. f_equal. lia.
Qed.

Theorem bit_iter_refines_list : forall br, bit_ok br = true ->
  bit_array_iter br = yib_ok (contents (yib_expand (bit_seq br))).
Proof.
  intros br Hok. destruct (bit_ok_inv br Hok) as [Hinv Hc]. unfold bit_array_iter.
  rewrite (bit_sl_values_loop br Hok (N.to_nat (bit_clen br))).
  - reflexivity.
  - apply bit_at_new. exact Hinv.
  - cbn. lia.
  - lia.
Qed.

(* ================================================================================================ *)
(* 8c. Array::remove_range (= XmlFragment::remove_range) refines local_delete and the list           *)
(* ================================================================================================ *)
Theorem bit_remove_refines_units : forall br i n, bit_ok br = true ->
  (i + n <= bit_clen br ->
   exists br', bit_array_remove_range br i n = yib_ok br' /\ bit_ok br' = true /\ bit_clen br' = bit_clen br - n /\
     yib_expand (bit_seq br') = local_delete (N.to_nat i) (N.to_nat n) (yib_expand (bit_seq br)) /\
     map d_op (yib_expand (bit_seq br')) = map d_op (yib_expand (bit_seq br)) /\
     (length (bit_seq br') <= length (bit_seq br) + 2)%nat) /\
  (bit_clen br < i -> bit_array_remove_range br i n = yib_fail 13) /\
  (i <= bit_clen br -> bit_clen br < i + n -> bit_array_remove_range br i n = yib_fail 14).
Proof.
  intros br i n Hok. destruct (bit_ok_inv br Hok) as [Hinv Hclen]. unfold bit_array_remove_range.
  split; [|split].
  - intros Hin.
    destruct (bit_try_forward_spec br (bit_iter_new br) i Hinv Hclen (bit_at_new br Hinv)) as (w & Hrun & Hidx & Hat).
    { cbn [bit_iter_new bit_index]. lia. }
    rewrite Hrun. cbn [bit_iter_new bit_index] in Hidx. rewrite N.add_0_l in Hidx.
    destruct (bit_delete_spec br w n Hinv Hclen Hat) as (br' & it' & Hdel & Hinv' & Hclen' & Hc & Hex & Hlen).
    { rewrite Hidx. exact Hin. }
    rewrite Hdel. cbn [yib_bind fst]. exists br'. split; [reflexivity|]. rewrite Hidx in Hex.
    split; [destruct br' as [s' c']; apply bit_inv_ok; assumption|]. split; [exact Hc|]. split; [exact Hex|].
    split; [rewrite Hex; apply local_delete_ops|exact Hlen].
  - intros Hi. destruct (bit_try_forward_beyond br (bit_iter_new br) i) as (it' & Hrun).
    + cbn [bit_iter_new bit_index]. lia.
    + cbn [bit_iter_new bit_index]. lia.
    + rewrite Hrun. reflexivity.
  - intros Hi Hn.
    destruct (bit_try_forward_spec br (bit_iter_new br) i Hinv Hclen (bit_at_new br Hinv)) as (w & Hrun & Hidx & Hat).
    { cbn [bit_iter_new bit_index]. lia. }
    rewrite Hrun. cbn [bit_iter_new bit_index] in Hidx. rewrite N.add_0_l in Hidx.
    unfold bit_delete. rewrite Hidx. replace (bit_clen br <? i + n) with true by (symmetry; apply N.ltb_lt; exact Hn).
    reflexivity.
Qed.

Theorem bit_remove_refines_list : forall br i n, bit_ok br = true -> i + n <= bit_clen br ->
  exists br', bit_array_remove_range br i n = yib_ok br' /\
    contents (yib_expand (bit_seq br'))
    = firstn (N.to_nat i) (contents (yib_expand (bit_seq br))) ++ skipn (N.to_nat (i + n)) (contents (yib_expand (bit_seq br))).
Proof.
  intros br i n Hok Hin. destruct (bit_remove_refines_units br i n Hok) as [H _].
  destruct (H Hin) as (br' & Hrun & _ & _ & Hex & _). exists br'. split; [exact Hrun|].
  rewrite Hex, local_delete_refines_gen. f_equal. f_equal. lia.
Qed.

(* ================================================================================================ *)
(* 9. the hypothesis bit_noncountable_deleted of bit_insert_refines_units is needed                   *)
(* ================================================================================================ *)
(* FALSE as stated (bit_insert_refines_units without `bit_noncountable_deleted (bit_seq br) = true`):
     forall br i newid par c, bit_ok br = true -> bit_content_ok c = true -> content_len c <> 0 ->
       bit_fresh (bit_seq br) newid c = true -> i <= bit_clen br ->
       exists br', bit_array_insert br i newid par c = yib_ok br' /\
         yib_expand (bit_seq br') = bit_local_insert_units (par, None) (yib_expand (bit_seq br)) (N.to_nat i)
                                                            (cl newid) (ck newid) (content_units c).
   try_forward steps over every item that is deleted OR not countable (can_forward), Local.split_gap only over deleted
   ones: with a live ContentFormat right of the index the block-level insertion lands right of it, the unit-level model
   left of it.  Not reachable through the Array / XmlFragment API (ContentFormat only occurs in text types). *)
Theorem bit_insert_refines_units_without_noncountable_deleted_refuted :
  exists br i newid par c,
    bit_ok br = true /\ bit_content_ok c = true /\ content_len c <> 0 /\ bit_fresh (bit_seq br) newid c = true /\
    i <= bit_clen br /\
    forall br', bit_array_insert br i newid par c = yib_ok br' ->
      yib_expand (bit_seq br') <> bit_local_insert_units (par, None) (yib_expand (bit_seq br)) (N.to_nat i)
                                                          (cl newid) (ck newid) (content_units c).
Proof.
  exists (bit_mkbranch [yib_mk (BItem (mkid 1 0) None None (PNamed [97]) None (BAny [AnyCodec.ANull])) false;
                        yib_mk (BItem (mkid 1 1) (Some (mkid 1 0)) None (PNamed [97]) None (BFormat [98] [110])) false] 1),
         1, (mkid 2 0), (PNamed [97]), (BAny [AnyCodec.ANull]).
  split; [vm_compute; reflexivity|]. split; [vm_compute; reflexivity|]. split; [vm_compute; discriminate|].
  split; [vm_compute; reflexivity|]. split; [vm_compute; discriminate|].
  intros br' H. vm_compute in H. injection H as <-. vm_compute. discriminate.
Qed.

(* ================================================================================================ *)
(* 10. assumptions *)
Print Assumptions bit_try_forward_spec.
Print Assumptions bit_array_insert_shape.
Print Assumptions bit_insert_refines_list.
Print Assumptions bit_insert_refines_units.
Print Assumptions bit_get_at_refines_list.
Print Assumptions bit_delete_spec.
Print Assumptions bit_del_delete_spec_ncd.
Print Assumptions bit_slice_spec.
Print Assumptions bit_slice_beyond.
Print Assumptions bit_get_refines_list.
Print Assumptions bit_to_json_refines_list.
Print Assumptions bit_iter_refines_list.
Print Assumptions bit_remove_refines_units.
Print Assumptions bit_remove_refines_list.
Print Assumptions bit_insert_refines_units_without_noncountable_deleted_refuted.
