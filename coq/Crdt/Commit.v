(* WHEN a transaction of yrs emits its update events, and in which order TransactionMut::commit does its work.
   Definitions only (pinned tree 2545c99).

   Rust code transcribed                                                        here
   ---------------------------------------------------------------------------  --------------------------------
   transaction.rs  TransactionMut::commit  (the whole function, in order)        emt_commit
                     `if self.committed { return }` / Drop::drop = commit()      emt_committed, emt_drop
                     2. emit 'beforeObserverCalls'                               emt_ev_before_observer_calls
                     3. `if !self.changed.is_empty() { call_observers() }`       emt_ev_observers (one opaque step)
                     `if needs_cleanup && store.cleanup_formatting`              emt_needs_cleanup, emt_cleanup_fmt
                     4. emit 'afterTransaction'                                  emt_ev_after_transaction
                     5. `if !skip_gc { GCCollector::collect(self) }`             GcBlocks.gcb_collect
                     6. delete_set.try_squash_with(&mut store)                   GcBlocksMore.gcb_try_squash_with
                     7. squash of the blocks of the insert set                   emt_squash_inserted, emt_squash_client,
                        (`while i >= first_change_pos { i = i.saturating_sub(1 + squash_left(i)) }`)  emt_squash_loop
                     8. merge_blocks pass                                        GcBlocks.gcb_merge_blocks
                     9. emit_transaction_cleanup, emit_update_v1, emit_update_v2 emt_step9
                     10. sub-document event                                      emt_ev_subdocs
   transaction.rs  TransactionMut::before_state / after_state (OnceCell)         emt_compute_before / emt_compute_after,
                                                                                 emt_get_or_init, cells emt_before_cell /
                                                                                 emt_after_cell
   transaction.rs  TransactionMut::delete (as called by cleanup_fmt_gap /        emt_delete_item
                     cleanup_fmt_gap_contextless on a Format item)
   transaction.rs  TransactionMut::encode_update                                 WriteBlocks.wbf_encode_txn_update_res
                                                                                 (total: wbf_encode_txn_update)
   store.rs        StoreEvents::emit_update_v1 / emit_update_v2:                 emt_fires, emt_step9
                     `if has_subscribers() { if !txn.delete_set.is_empty()
                          || !txn.insert_set.is_empty() { ... } }`               (before 422808a: `|| txn.after_state()
                                                                                 != txn.before_state()`, ..._pre_422808a)
                   emit_transaction_cleanup (event.rs TransactionCleanupEvent::new
                     reads before_state(), after_state(), delete_set)            emt_ev_cleanup
                   emit_after_transaction / emit_before_observer_calls           (trigger: nothing without subscriber)
   state_vector.rs StateVector::set_min / set_max, #[derive(PartialEq)] on the   emt_set_min, emt_set_max, emt_sv_eqb
                     HashMap (same length, every entry of one found in the other)
   block_store.rs  BlockStore::get_state_vector                                  WriteBlocks.wbf_state_vector
   ids.rs          IdRanges::clock_start / clock_end                             emt_clock_start, emt_clock_end
   id_set.rs       IdSet::is_empty (BTreeMap::is_empty), IdSet::insert           emt_idset_is_empty, Ranges.idset_insert

   The firing condition NOW (store.rs emit_update_v1 / emit_update_v2, repair 422808a in the working tree, transcribed
   from the coordinator's description of it: the working tree of /repo is not read) is, for each of v1 / v2 separately,
        has_subscribers() && (!txn.delete_set.is_empty() || !txn.insert_set.is_empty())
   [emt_fires]; IdSet::is_empty = the BTreeMap has no client entry.  The OnceCells before_state / after_state are no
   longer consulted there; they still exist and are still filled by TransactionCleanupEvent::new ([emt_step9]).
   [emt_changedb ins ds] = `emt_some_range ins || negb (emt_idset_is_empty ds)` says "a range / an entry": the two agree
   when no client entry of the insert set is empty (IdSet::insert returns at len = 0 and never stores an empty IdRanges;
   CommitProofs.emt_fires_spec).
   BEFORE 422808a (the condition of the first snapshot 231e47b of the pinned history; none of f694c28 / 237bcf9 / 7da5187
   touched it):
        has_subscribers && (!delete_set.is_empty() || after_state() != before_state())
   kept as [emt_fires_pre_422808a], [emt_step9_pre_422808a], [emt_commit_pre_422808a]: after_state() read before the
   transaction's last insertion suppressed the event (CommitProofs.emt_fires_iff_changed_stale_after_pre_422808a_refuted).
   f694c28 repaired the CONTENT of the event of a transaction that integrates behind a hole (the event
   fired, with an empty block section: [emt_event_pre_f694c28]).  "Compare the store's state vectors only" never was
   the condition; it is kept as [emt_fires_pre_f694c28] because that is what the old condition would have been without the
   set_min / set_max corrections of before_state / after_state.
   There is no `store.clean_up` in commit; the function ends with the sub-document events.

   Transaction summary [emt_txn]: the store at the moment commit is called (GcBlocks.gcb_store: per client the cells
   = wire-level block + deleted / keep / countable flags, per branch the item sequence), insert set, delete set,
   merge_blocks, the two OnceCells, the `committed` flag, `changed` non-empty or not, whether call_observers sets
   needs_cleanup (a changed branch has_formatting and the transaction is remote), the ids of the Format items
   cleanup_fmt deletes (in order), the subscribers present (store.events: None or, per kind, has_subscribers), skip_gc,
   cleanup_formatting, whether self.subdocs is Some.

   Where the model is more abstract than the code
     - callbacks are opaque and do not change the transaction: one trace entry per KIND of event that has at least one
       subscriber (Observer::trigger calls every callback of the kind once, in subscription order: not modelled).
       afterTransaction callbacks receive `&mut TransactionMut` and may insert / delete; what they do is part of the
       update event (it is emitted later; replayed in emt_events.rs), here they do nothing.  A callback (or the user,
       before commit) that reads before_state() / after_state() fills the OnceCell: the cells are INPUTS of the model
       ([emt_before_cell], [emt_after_cell]); reading them during commit is not modelled separately (after the last
       insertion a read stores the value step 9 computes: [emt_cell_fresh]).
     - call_observers is one step ([emt_ev_observers], carrying the delete set the type observers can see); which type /
       deep observers run is Crdt/Dispatch.v.
     - cleanup_fmt: WHICH Format items it deletes (cleanup_fmt_gap, cleanup_fmt_gap_contextless, cleanup_text_fmt) is not
       computed: [emt_fmt_deletes] is given.  Its effect is transcribed: TransactionMut::delete on each (mark deleted,
       delete_set.insert(id, len); a Format item has no children, no sub-document, so nothing is pushed on merge_blocks;
       parent lengths and `changed` are not part of the store here; `self.cleanups` is not modelled).  An id that names no
       Item cell is a dangling ItemPtr: [adl_panic].
     - a panic anywhere in commit gives [adl_panic] for the whole commit (the Rust code has emitted the earlier events by
       then; the unwinding Drop runs commit again, which returns at the `committed` guard).
     - step 7: `get_client_mut(client).unwrap_unchecked()` on a client without list is undefined behaviour: [adl_panic].
       ClientBlockList::squash_left returns the number of merges; GcBlocks.gcb_squash_left returns the new list, the
       number is the difference of the lengths.
     - the payload of an update event is the update value written through the Encoder trait (the same generic
       encode_update for both): [emt_ev_update_v1 u] / [emt_ev_update_v2 u]; the v1 bytes are
       WriteBlocks.wbf_encode_update_v1 ([emt_event_bytes_v1]), the v2 bytes Codec/V2Cols (cited, not used).
     - step 10: one entry [emt_ev_subdocs] when self.subdocs is Some and the kind has subscribers; the bookkeeping of
       store.subdocs and Doc::destroy is not modelled.
     - HashMaps are association lists with distinct keys ([emt_keys_ok]). *)
From Coq Require Import List NArith Bool.
From YV Require Import Lib.Bytes Codec.UpdateV1 Ids.Ranges Crdt.Doc Crdt.Blocks Crdt.Merge Crdt.Diff Crdt.ApplyDelete
  Crdt.WriteBlocks Crdt.GcBlocks Crdt.GcBlocksMore.
Import ListNotations.
Open Scope N_scope.

(* ---------------------------------------------------------------------------------------------- *)
(* A. state vectors                                                                               *)
(* ---------------------------------------------------------------------------------------------- *)
Definition emt_sv : Type := list (N * N).

(* StateVector::set_min: Occupied => min, Vacant => insert(clock) *)
Fixpoint emt_set_min (sv : emt_sv) (c k : N) : emt_sv :=
  match sv with
  | [] => [(c, k)]
  | (c', v) :: r => if c' =? c then (c', N.min v k) :: r else (c', v) :: emt_set_min r c k
  end.
(* StateVector::set_max: entry(client).or_default(), then max *)
Fixpoint emt_set_max (sv : emt_sv) (c k : N) : emt_sv :=
  match sv with
  | [] => [(c, N.max 0 k)]
  | (c', v) :: r => if c' =? c then (c', N.max v k) :: r else (c', v) :: emt_set_max r c k
  end.

(* HashMap == HashMap: same number of entries and every entry of the first found in the second *)
Definition emt_sv_sub (a b : emt_sv) : bool :=
  forallb (fun e => match wbf_lookup b (fst e) with Some v => v =? snd e | None => false end) a.
Definition emt_sv_eqb (a b : emt_sv) : bool := Nat.eqb (length a) (length b) && emt_sv_sub a b.

(* IdRanges::clock_start / clock_end *)
Definition emt_clock_start (r : idrange) : option N :=
  match r with x :: _ => Some (e_start x) | [] => None end.
Fixpoint emt_clock_end (r : idrange) : option N :=
  match r with
  | [] => None
  | x :: r' => match r' with [] => Some (e_end x) | _ => emt_clock_end r' end
  end.

(* the closures of before_state() / after_state() *)
Definition emt_compute_before (st : gcb_store) (ins : idset) : emt_sv :=
  fold_left (fun sv cr => match emt_clock_start (snd cr) with
                          | Some k => emt_set_min sv (fst cr) k
                          | None => sv
                          end) ins (wbf_state_vector (gcb_to_wbf st)).
Definition emt_compute_after (st : gcb_store) (ins : idset) : emt_sv :=
  fold_left (fun sv cr => match emt_clock_end (snd cr) with
                          | Some k => emt_set_max sv (fst cr) k
                          | None => sv
                          end) ins (wbf_state_vector (gcb_to_wbf st)).
(* OnceCell::get_or_init *)
Definition emt_get_or_init (cell : option emt_sv) (v : emt_sv) : emt_sv :=
  match cell with Some x => x | None => v end.

(* IdSet::is_empty *)
Definition emt_idset_is_empty (m : idset) : bool := match m with [] => true | _ => false end.

(* the test of emit_update_v1 / emit_update_v2 below has_subscribers() (422808a) *)
Definition emt_fires (ins ds : idset) : bool :=
  negb (emt_idset_is_empty ds) || negb (emt_idset_is_empty ins).
(* ... before 422808a *)
Definition emt_fires_pre_422808a (ds : idset) (before after : emt_sv) : bool :=
  negb (emt_idset_is_empty ds) || negb (emt_sv_eqb after before).

(* "the state vector of the store moved" ([st0] = the store when the transaction began): never the condition of
   the code, see the header *)
Definition emt_fires_pre_f694c28 (st0 st : gcb_store) (ds : idset) : bool :=
  negb (emt_idset_is_empty ds)
  || negb (emt_sv_eqb (wbf_state_vector (gcb_to_wbf st)) (wbf_state_vector (gcb_to_wbf st0))).

(* what the transaction did, as the statements say it: it integrated / deleted at least one unit *)
Definition emt_some_range (m : idset) : bool :=
  existsb (fun cr => match snd cr with [] => false | _ => true end) m.
Definition emt_changedb (ins ds : idset) : bool := emt_some_range ins || negb (emt_idset_is_empty ds).

(* ---------------------------------------------------------------------------------------------- *)
(* B. the transaction, the events                                                                 *)
(* ---------------------------------------------------------------------------------------------- *)
(* StoreEvents: has_subscribers() of each Observer *)
Record emt_subs := emt_mksubs {
  emt_s_before_observer_calls : bool;
  emt_s_after_transaction : bool;
  emt_s_cleanup : bool;
  emt_s_v1 : bool;
  emt_s_v2 : bool;
  emt_s_subdocs : bool }.

Record emt_txn := emt_mktxn {
  emt_store : gcb_store;
  emt_ins : idset;                       (* insert_set *)
  emt_ds : idset;                        (* delete_set *)
  emt_merge : list id;                   (* merge_blocks *)
  emt_before_cell : option emt_sv;       (* before_state: OnceCell *)
  emt_after_cell : option emt_sv;        (* after_state: OnceCell *)
  emt_committed : bool;
  emt_changed : bool;                    (* !self.changed.is_empty() *)
  emt_fmt_remote : bool;                 (* call_observers: some changed branch has_formatting && !self.local *)
  emt_fmt_deletes : list id;             (* the Format items cleanup_fmt deletes *)
  emt_events : option emt_subs;          (* store.events *)
  emt_skip_gc : bool;
  emt_cleanup_formatting : bool;
  emt_has_subdocs : bool }.              (* self.subdocs.is_some() *)

Inductive emt_event :=
| emt_ev_before_observer_calls
| emt_ev_observers (ds : idset)                          (* call_observers; the delete set observers can read *)
| emt_ev_after_transaction (ds : idset)
| emt_ev_cleanup (before after : emt_sv) (ds : idset)    (* TransactionCleanupEvent *)
| emt_ev_update_v1 (u : adl_res update)
| emt_ev_update_v2 (u : adl_res update)
| emt_ev_subdocs.

Definition emt_sub (t : emt_txn) (f : emt_subs -> bool) : bool :=
  match emt_events t with Some s => f s | None => false end.

(* ---------------------------------------------------------------------------------------------- *)
(* C. cleanup_fmt: its effect                                                                     *)
(* ---------------------------------------------------------------------------------------------- *)
(* needs_cleanup is set inside call_observers only *)
Definition emt_needs_cleanup (t : emt_txn) : bool := emt_changed t && emt_fmt_remote t.

(* TransactionMut::delete(item) for an item without children *)
Definition emt_delete_item (acc : gcb_store * idset) (i : id) : adl_res (gcb_store * idset) :=
  match gcb_get_item (fst acc) i with
  | None => adl_panic                                                  (* dangling ItemPtr *)
  | Some (pos, c) =>
    if gcb_del c then adl_ok acc                                       (* if !item.is_deleted() { ... } *)
    else match idset_insert (snd acc) (cl i) (ck i) (block_len (gcb_blk c)) with
         | Some ds' =>
             adl_ok (gcb_map_at (fst acc) (cl i) pos
                       (fun x => gcb_mkcell (gcb_blk x) true (gcb_keep x) (gcb_cnt x)), ds')
         | None => adl_panic                                           (* IdRanges::insert indexes out of range *)
         end
  end.
Definition emt_cleanup_fmt (t : emt_txn) : adl_res (gcb_store * idset) :=
  if emt_needs_cleanup t && emt_cleanup_formatting t
  then adl_fold emt_delete_item (emt_fmt_deletes t) (emt_store t, emt_ds t)
  else adl_ok (emt_store t, emt_ds t).

(* ---------------------------------------------------------------------------------------------- *)
(* D. steps 5 - 8: the store is rewritten                                                         *)
(* ---------------------------------------------------------------------------------------------- *)
(* `while i >= first_change_pos { i = i.saturating_sub(1 + blocks.squash_left(i)); }` *)
Fixpoint emt_squash_loop (fuel : nat) (st : gcb_store) (bl : list gcb_cell) (first i : nat)
  : adl_res (gcb_store * list gcb_cell) :=
  match fuel with
  | O => adl_panic
  | S f =>
    if Nat.leb first i then
      adl_bind (gcb_squash_left (S (length bl)) st bl i) (fun r =>
      emt_squash_loop f (fst r) (snd r) first (i - (1 + (length bl - length (snd r)))))
    else adl_ok (st, bl)
  end.
(* the body of `for (client, ids) in self.insert_set.iter()` *)
Definition emt_squash_client (st : gcb_store) (cr : N * idrange) : adl_res gcb_store :=
  match emt_clock_start (snd cr) with
  | None => adl_ok st
  | Some first_clock =>
    match gcb_get_client (gcb_clients st) (fst cr) with
    | None => adl_panic                                                (* get_client_mut().unwrap_unchecked() *)
    | Some bl =>
      adl_bind (gcb_find_index bl first_clock) (fun oi =>               (* panics on an empty list *)
      let first := Nat.max (match oi with Some p => p | None => O end) 1 in   (* unwrap_or_default().max(1) *)
      match length bl with
      | O => adl_panic                                                  (* blocks.len() - 1 *)
      | S last =>
        adl_bind (emt_squash_loop (S (length bl)) st bl first last) (fun r =>
        adl_ok (gcb_mkstore (gcb_set_client (gcb_clients (fst r)) (fst cr) (snd r)) (gcb_branches (fst r))))
      end)
    end
  end.
Definition emt_squash_inserted (st : gcb_store) (ins : idset) : adl_res gcb_store :=
  adl_fold emt_squash_client ins st.

(* steps 5, 6, 7, 8 *)
Definition emt_rewrite (t : emt_txn) (st : gcb_store) (ds : idset) : adl_res gcb_store :=
  adl_bind (if emt_skip_gc t then adl_ok st else gcb_collect st ds) (fun st5 =>
  adl_bind (gcb_try_squash_with st5 ds) (fun st6 =>
  adl_bind (emt_squash_inserted st6 (emt_ins t)) (fun st7 =>
  gcb_merge_blocks st7 (emt_merge t)))).

(* ---------------------------------------------------------------------------------------------- *)
(* E. step 9 and the whole commit                                                                 *)
(* ---------------------------------------------------------------------------------------------- *)
Definition emt_update_of (st : gcb_store) (ins ds : idset) : adl_res update :=
  wbf_encode_txn_update_res (gcb_to_wbf st) ins ds.

(* emit_transaction_cleanup; emit_update_v1; emit_update_v2.  Returns the events and the two cells: only
   TransactionCleanupEvent::new reads before_state() / after_state() now. *)
Definition emt_step9 (t : emt_txn) (st : gcb_store) (ds : idset)
  : list emt_event * (option emt_sv * option emt_sv) :=
  let before := emt_get_or_init (emt_before_cell t) (emt_compute_before st (emt_ins t)) in
  let after := emt_get_or_init (emt_after_cell t) (emt_compute_after st (emt_ins t)) in
  let fires := emt_fires (emt_ins t) ds in
  let cleanup := emt_sub t emt_s_cleanup in
  let v1 := emt_sub t emt_s_v1 in
  let v2 := emt_sub t emt_s_v2 in
  ((if cleanup then [emt_ev_cleanup before after ds] else [])
   ++ (if v1 && fires then [emt_ev_update_v1 (emt_update_of st (emt_ins t) ds)] else [])
   ++ (if v2 && fires then [emt_ev_update_v2 (emt_update_of st (emt_ins t) ds)] else []),
   (if cleanup then (Some before, Some after) else (emt_before_cell t, emt_after_cell t))).
(* before 422808a *)
Definition emt_step9_pre_422808a (t : emt_txn) (st : gcb_store) (ds : idset)
  : list emt_event * (option emt_sv * option emt_sv) :=
  let before := emt_get_or_init (emt_before_cell t) (emt_compute_before st (emt_ins t)) in
  let after := emt_get_or_init (emt_after_cell t) (emt_compute_after st (emt_ins t)) in
  let fires := emt_fires_pre_422808a ds before after in
  let cleanup := emt_sub t emt_s_cleanup in
  let v1 := emt_sub t emt_s_v1 in
  let v2 := emt_sub t emt_s_v2 in
  (* `||` does not evaluate after_state() != before_state() when the delete set is not empty *)
  let read := cleanup || ((v1 || v2) && emt_idset_is_empty ds) in
  ((if cleanup then [emt_ev_cleanup before after ds] else [])
   ++ (if v1 && fires then [emt_ev_update_v1 (emt_update_of st (emt_ins t) ds)] else [])
   ++ (if v2 && fires then [emt_ev_update_v2 (emt_update_of st (emt_ins t) ds)] else []),
   (if read then (Some before, Some after) else (emt_before_cell t, emt_after_cell t))).

(* commit, with step 9 as a parameter (the only step 422808a changed) *)
Definition emt_commit_gen
    (step9 : emt_txn -> gcb_store -> idset -> list emt_event * (option emt_sv * option emt_sv))
    (t : emt_txn) : adl_res (emt_txn * list emt_event) :=
  if emt_committed t then adl_ok (t, [])                                  (* if self.committed { return; } *)
  else
    adl_bind (emt_cleanup_fmt t) (fun sd =>
    adl_bind (emt_rewrite t (fst sd) (snd sd)) (fun st =>
    let s9 := step9 t st (snd sd) in
    adl_ok
      (emt_mktxn st (emt_ins t) (snd sd) (emt_merge t) (fst (snd s9)) (snd (snd s9)) true
                 (emt_changed t) (emt_fmt_remote t) (emt_fmt_deletes t) (emt_events t) (emt_skip_gc t)
                 (emt_cleanup_formatting t) false                        (* self.subdocs.take() *),
       (if emt_sub t emt_s_before_observer_calls then [emt_ev_before_observer_calls] else [])
       ++ (if emt_changed t then [emt_ev_observers (emt_ds t)] else [])
       ++ (if emt_sub t emt_s_after_transaction then [emt_ev_after_transaction (snd sd)] else [])
       ++ fst s9
       ++ (if emt_has_subdocs t && emt_sub t emt_s_subdocs then [emt_ev_subdocs] else [])))).
Definition emt_commit : emt_txn -> adl_res (emt_txn * list emt_event) := emt_commit_gen emt_step9.
Definition emt_commit_pre_422808a : emt_txn -> adl_res (emt_txn * list emt_event) :=
  emt_commit_gen emt_step9_pre_422808a.

(* explicit commit(s), then Drop *)
Definition emt_drop : emt_txn -> adl_res (emt_txn * list emt_event) := emt_commit.
Definition emt_commit_then_drop (t : emt_txn) : adl_res (emt_txn * list emt_event) :=
  adl_bind (emt_commit t) (fun r1 =>
  adl_bind (emt_drop (fst r1)) (fun r2 => adl_ok (fst r2, snd r1 ++ snd r2))).

(* ---------------------------------------------------------------------------------------------- *)
(* F. views and hypotheses                                                                        *)
(* ---------------------------------------------------------------------------------------------- *)
Definition emt_is_v1 (e : emt_event) : bool := match e with emt_ev_update_v1 _ => true | _ => false end.
Definition emt_is_v2 (e : emt_event) : bool := match e with emt_ev_update_v2 _ => true | _ => false end.
Definition emt_count (f : emt_event -> bool) (tr : list emt_event) : nat := length (filter f tr).
Definition emt_payloads (tr : list emt_event) : list (adl_res update) :=
  flat_map (fun e => match e with emt_ev_update_v1 u | emt_ev_update_v2 u => [u] | _ => [] end) tr.

(* the block map has distinct clients *)
Definition emt_keys_ok (st : gcb_store) : bool := dff_nodupb (map fst (gcb_clients st)).
(* IdSet never keeps a client entry without a range (IdSet::insert returns at len = 0) *)
Definition emt_no_empty_entry (m : idset) : Prop := forall c r, In (c, r) m -> r <> [].
(* a OnceCell is empty, or holds what step 9 would compute *)
Definition emt_cell_fresh (cell : option emt_sv) (v : emt_sv) : Prop := cell = None \/ cell = Some v.
(* the insert set as IdSet keeps it (WriteBlocks.wbf_ins_ok): clients ascending, canonical ranges *)
Definition emt_ins_ok (ins : idset) : bool := wbf_ins_ok ins.

(* the event before f694c28: write_blocks_from(before_state) compared with the gap-aware vector *)
Definition emt_event_pre_f694c28 (st : gcb_store) (ins ds : idset) : update :=
  {| u_blocks := u_blocks (wbf_encode_diff_pre_f694c28 (gcb_to_wbf st) (emt_compute_before st ins)); u_ds := ds |}.

(* what a follower that applies the event learns about a unit: it is deleted iff it arrives as a collected range, as an
   item whose content is ContentDeleted, or its id is in the event's delete set *)
Definition emt_unit_dead (u : update) (b : block) (k : N) : bool :=
  match b with
  | BGC _ _ => true
  | BItem _ _ _ _ _ (BDeleted _) => true
  | BItem i _ _ _ _ _ => mrg_ds_mem (u_ds u) (cl i) k
  | BSkip _ _ => false
  end.
(* ... and the leader: the cells of the insert set that are deleted are covered: GC, ContentDeleted, or in the delete set *)
Definition emt_cell_covered (ds : idset) (c : gcb_cell) : bool :=
  negb (gcb_is_deleted c)
  || match gcb_blk c with
     | BGC _ _ => true
     | BItem _ _ _ _ _ (BDeleted _) => true
     | BItem i _ _ _ _ _ =>
         forallb (fun n => mrg_ds_mem ds (cl i) (ck i + N.of_nat n)) (seq 0 (N.to_nat (block_len (gcb_blk c))))
     | BSkip _ _ => true
     end.

(* the v1 bytes of the event *)
Definition emt_event_bytes_v1 (st : gcb_store) (ins ds : idset) : res (list N) :=
  wbf_encode_update_v1 (gcb_to_wbf st) ins ds.

(* entry point for a driver: the kinds of the events of a commit followed by Drop, in order
   (0 beforeObserverCalls, 1 observers, 2 afterTransaction, 3 cleanup, 4 update v1, 5 update v2, 6 subdocs) *)
Definition emt_kind (e : emt_event) : N :=
  match e with
  | emt_ev_before_observer_calls => 0 | emt_ev_observers _ => 1 | emt_ev_after_transaction _ => 2
  | emt_ev_cleanup _ _ _ => 3 | emt_ev_update_v1 _ => 4 | emt_ev_update_v2 _ => 5 | emt_ev_subdocs => 6
  end.
Definition emt_run (t : emt_txn) : adl_res (list N) :=
  adl_bind (emt_commit_then_drop t) (fun r => adl_ok (map emt_kind (snd r))).
Definition emt_run_pre_422808a (t : emt_txn) : adl_res (list N) :=
  adl_bind (emt_commit_pre_422808a t) (fun r => adl_ok (map emt_kind (snd r))).
