(* Concrete runs (vm_compute) for Snapshot.v / SnapshotProofs.v.
   A. Runs of the model against the Rust library (scratch tests yrs/tests/snp_cases.rs and yrs/tests/snp_replay.rs, debug
      build with --cfg y_crdt_y_crdt_verif, yrs at 7da5187, i.e. BEFORE the repair 1ea45c9 of write_blocks_to; the repair
      only deletes the dead `clock.min(blocks.clock() + 1)`, so both transcriptions must give these bytes:
      [snp_encode_state_from_snapshot_v1] and [..._pre_1ea45c9]; the one store on which they differ is snp_w_max, replayed
      on both trees).  Every store is the yrs::verif::dump_store of a real replica
      printed as a [wbf_store]; (sv, ds) is the Snapshot handed to encode_state_from_snapshot (state_map sorted by client,
      delete_set as IdSet lists it); the byte list is what EncoderV1 returned.  [snp_case_check]: the store satisfies the
      hypotheses of the theorems; the code as written ([snp_encode_state_from_snapshot_v1], with find_index and the
      panics) and the total version ([snp_encode_update]) both give the Rust bytes; when no cut falls inside a surrogate
      pair the bytes decode to the model's update up to the parent information that is not on the wire ([dff_wire]) and the
      units are those of theorem 2.  "own" cases: (sv, ds) is the model's snapshot of the dumped store ([snp_snapshot_sorted]).
      Replicas: one and two authors on a text (blocks squashed, split by deletions, deleted content kept: skip_gc), a
      snapshot that cuts a block in the middle, a snapshot taken earlier than the store (cases 2-5, 10), hand-made
      snapshots (unknown clients, clock 0, a clock above the local one, a clock inside a surrogate pair - case 7, where
      [snp_cut_ok] is false and the model still gives the Rust bytes), out-of-order delivery (a hole: cases 9, 10), a GC
      range and a collected item cut in the middle (13, 14).
   B. Non-vacuity of the hypotheses of the theorems and the witnesses of the _refuted theorems, with the bytes Rust
      returned for them (snp_replay.rs). *)
From Coq Require Import List NArith ZArith Bool.
From YV Require Import Gen.Consts Lib.Bytes Codec.Varint Codec.AnyCodec Codec.IdSetCodec Codec.UpdateV1 Ids.Ranges
  Crdt.Doc Crdt.Blocks Crdt.Merge Crdt.Diff Crdt.ApplyDelete Crdt.WriteBlocks.
From YV.Crdt Require Import Snapshot SnapshotProofs.
Import ListNotations. Open Scope N_scope.

Definition snp_case_check (st : wbf_store) (sv : list (N * N)) (ds : idset) (bytes : list N) : Prop :=
  snp_wf st = true /\ wbf_sv_ok sv = true /\
  snp_encode_state_from_snapshot_v1 true st sv ds = Ok bytes [] /\
  snp_encode_state_from_snapshot_v1_pre_1ea45c9 true st sv ds = Ok bytes [] /\
  snp_encode_state_from_snapshot_v1 false st sv ds = Err Custom /\
  encode_update_v1 (snp_encode_update st (sv, ds)) = Some bytes /\
  (if snp_cut_ok st sv
   then decode_update_v1 (S (length bytes)) bytes = Ok (dff_wire (snp_encode_update st (sv, ds))) [] /\
        units_of_update (snp_encode_update st (sv, ds)) = filter (snp_in_snapshot st sv) (wbf_units_desc st)
   else True).
Definition snp_own_check (st : wbf_store) (sv : list (N * N)) (ds : idset) : Prop := snp_snapshot_sorted st = (sv, ds).

(* case 1_own *)
Definition snp_case_1_own_store : wbf_store := [
   (1, [(BItem (mkid 1 0) None None (PNamed [116]) None (BString [104; 101; 108; 108; 111]), false)])].
Definition snp_case_1_own_sv : list (N * N) := [(1, 5)].
Definition snp_case_1_own_ds : idset := [].
Definition snp_case_1_own_bytes : list N := [1; 1; 1; 0; 4; 1; 1; 116; 5; 104; 101; 108; 108; 111; 0].
(* restored text t = "hello" *)
(* case 2_cut *)
Definition snp_case_2_cut_store : wbf_store := [
   (1, [(BItem (mkid 1 0) None None (PNamed [116]) None (BString [104; 101; 108; 108; 111; 95; 119; 111; 114; 108; 100]), false)])].
Definition snp_case_2_cut_sv : list (N * N) := [(1, 5)].
Definition snp_case_2_cut_ds : idset := [].
Definition snp_case_2_cut_bytes : list N := [1; 1; 1; 0; 4; 1; 1; 116; 5; 104; 101; 108; 108; 111; 0].
(* restored text t = "hello" *)
(* case 3_del *)
Definition snp_case_3_del_store : wbf_store := [
   (1, [(BItem (mkid 1 0) None None (PNamed [116]) None (BString [104]), false);
        (BItem (mkid 1 1) (Some (mkid 1 0)) None (PNamed [116]) None (BString [101; 108; 108]), true);
        (BItem (mkid 1 4) (Some (mkid 1 3)) None (PNamed [116]) None (BString [111; 95; 119; 111; 114; 108; 100]), false)])].
Definition snp_case_3_del_sv : list (N * N) := [(1, 5)].
Definition snp_case_3_del_ds : idset := [].
Definition snp_case_3_del_bytes : list N := [1; 3; 1; 0; 4; 1; 1; 116; 1; 104; 132; 1; 0; 3; 101; 108; 108; 132; 1; 3; 1; 111; 0].
(* restored text t = "hello" *)
(* case 4_s1_late *)
Definition snp_case_4_s1_late_store : wbf_store := [
   (1, [(BItem (mkid 1 0) None None (PNamed [116]) None (BString [104]), false);
        (BItem (mkid 1 1) (Some (mkid 1 0)) None (PNamed [116]) None (BString [101; 108; 108]), true);
        (BItem (mkid 1 4) (Some (mkid 1 3)) None (PNamed [116]) None (BString [111]), false);
        (BItem (mkid 1 5) (Some (mkid 1 4)) None (PNamed [116]) None (BString [95; 119]), true);
        (BItem (mkid 1 7) (Some (mkid 1 6)) None (PNamed [116]) None (BString [111; 114; 108; 100]), false);
        (BItem (mkid 1 11) None (Some (mkid 1 0)) (PNamed [116]) None (BString [240; 159; 152; 128; 33]), false)]);
   (2, [(BItem (mkid 2 0) (Some (mkid 1 3)) (Some (mkid 1 4)) (PNamed [116]) None (BString [69; 89]), false)])].
Definition snp_case_4_s1_late_sv : list (N * N) := [(1, 5)].
Definition snp_case_4_s1_late_ds : idset := [].
Definition snp_case_4_s1_late_bytes : list N := [1; 3; 1; 0; 4; 1; 1; 116; 1; 104; 132; 1; 0; 3; 101; 108; 108; 132; 1; 3; 1; 111; 0].
(* restored text t = "hello" *)
(* case 5_s2_late *)
Definition snp_case_5_s2_late_store : wbf_store := [
   (1, [(BItem (mkid 1 0) None None (PNamed [116]) None (BString [104]), false);
        (BItem (mkid 1 1) (Some (mkid 1 0)) None (PNamed [116]) None (BString [101; 108; 108]), true);
        (BItem (mkid 1 4) (Some (mkid 1 3)) None (PNamed [116]) None (BString [111]), false);
        (BItem (mkid 1 5) (Some (mkid 1 4)) None (PNamed [116]) None (BString [95; 119]), true);
        (BItem (mkid 1 7) (Some (mkid 1 6)) None (PNamed [116]) None (BString [111; 114; 108; 100]), false);
        (BItem (mkid 1 11) None (Some (mkid 1 0)) (PNamed [116]) None (BString [240; 159; 152; 128; 33]), false)]);
   (2, [(BItem (mkid 2 0) (Some (mkid 1 3)) (Some (mkid 1 4)) (PNamed [116]) None (BString [69; 89]), false)])].
Definition snp_case_5_s2_late_sv : list (N * N) := [(1, 11)].
Definition snp_case_5_s2_late_ds : idset := [(1, [(1, 4, tt)])].
Definition snp_case_5_s2_late_bytes : list N := [1; 5; 1; 0; 4; 1; 1; 116; 1; 104; 132; 1; 0; 3; 101; 108; 108; 132; 1; 3; 1; 111; 132; 1; 4; 2; 95; 119; 132; 1; 6; 4; 111; 114; 108; 100; 1; 1; 1; 1; 3].
(* restored text t = "ho_world" *)
(* case 6_s3_own *)
Definition snp_case_6_s3_own_store : wbf_store := [
   (1, [(BItem (mkid 1 0) None None (PNamed [116]) None (BString [104]), false);
        (BItem (mkid 1 1) (Some (mkid 1 0)) None (PNamed [116]) None (BString [101; 108; 108]), true);
        (BItem (mkid 1 4) (Some (mkid 1 3)) None (PNamed [116]) None (BString [111]), false);
        (BItem (mkid 1 5) (Some (mkid 1 4)) None (PNamed [116]) None (BString [95; 119]), true);
        (BItem (mkid 1 7) (Some (mkid 1 6)) None (PNamed [116]) None (BString [111; 114; 108; 100]), false);
        (BItem (mkid 1 11) None (Some (mkid 1 0)) (PNamed [116]) None (BString [240; 159; 152; 128; 33]), false)]);
   (2, [(BItem (mkid 2 0) (Some (mkid 1 3)) (Some (mkid 1 4)) (PNamed [116]) None (BString [69; 89]), false)])].
Definition snp_case_6_s3_own_sv : list (N * N) := [(1, 14); (2, 2)].
Definition snp_case_6_s3_own_ds : idset := [(1, [(1, 4, tt); (5, 7, tt)])].
Definition snp_case_6_s3_own_bytes : list N := [2; 1; 2; 0; 196; 1; 3; 1; 4; 2; 69; 89; 6; 1; 0; 4; 1; 1; 116; 1; 104; 132; 1; 0; 3; 101; 108; 108; 132; 1; 3; 1; 111; 132; 1; 4; 2; 95; 119; 132; 1; 6; 4; 111; 114; 108; 100; 68; 1; 0; 5; 240; 159; 152; 128; 33; 1; 1; 2; 1; 3; 5; 2].
(* restored text t = "😀!hEYoorld" *)
(* case 7_handmade *)
Definition snp_case_7_handmade_store : wbf_store := [
   (1, [(BItem (mkid 1 0) None None (PNamed [116]) None (BString [104]), false);
        (BItem (mkid 1 1) (Some (mkid 1 0)) None (PNamed [116]) None (BString [101; 108; 108]), true);
        (BItem (mkid 1 4) (Some (mkid 1 3)) None (PNamed [116]) None (BString [111]), false);
        (BItem (mkid 1 5) (Some (mkid 1 4)) None (PNamed [116]) None (BString [95; 119]), true);
        (BItem (mkid 1 7) (Some (mkid 1 6)) None (PNamed [116]) None (BString [111; 114; 108; 100]), false);
        (BItem (mkid 1 11) None (Some (mkid 1 0)) (PNamed [116]) None (BString [240; 159; 152; 128; 33]), false)]);
   (2, [(BItem (mkid 2 0) (Some (mkid 1 3)) (Some (mkid 1 4)) (PNamed [116]) None (BString [69; 89]), false)])].
Definition snp_case_7_handmade_sv : list (N * N) := [(1, 12); (2, 100); (3, 4); (4, 0)].
Definition snp_case_7_handmade_ds : idset := [].
Definition snp_case_7_handmade_bytes : list N := [2; 1; 2; 0; 196; 1; 3; 1; 4; 2; 69; 89; 6; 1; 0; 4; 1; 1; 116; 1; 104; 132; 1; 0; 3; 101; 108; 108; 132; 1; 3; 1; 111; 132; 1; 4; 2; 95; 119; 132; 1; 6; 4; 111; 114; 108; 100; 68; 1; 0; 4; 240; 159; 152; 128; 0].
(* restored text t = "😀hellEYo_world" *)
(* case 8_only2 *)
Definition snp_case_8_only2_store : wbf_store := [
   (1, [(BItem (mkid 1 0) None None (PNamed [116]) None (BString [104]), false);
        (BItem (mkid 1 1) (Some (mkid 1 0)) None (PNamed [116]) None (BString [101; 108; 108]), true);
        (BItem (mkid 1 4) (Some (mkid 1 3)) None (PNamed [116]) None (BString [111]), false);
        (BItem (mkid 1 5) (Some (mkid 1 4)) None (PNamed [116]) None (BString [95; 119]), true);
        (BItem (mkid 1 7) (Some (mkid 1 6)) None (PNamed [116]) None (BString [111; 114; 108; 100]), false);
        (BItem (mkid 1 11) None (Some (mkid 1 0)) (PNamed [116]) None (BString [240; 159; 152; 128; 33]), false)]);
   (2, [(BItem (mkid 2 0) (Some (mkid 1 3)) (Some (mkid 1 4)) (PNamed [116]) None (BString [69; 89]), false)])].
Definition snp_case_8_only2_sv : list (N * N) := [(2, 1)].
Definition snp_case_8_only2_ds : idset := [(1, [(1, 4, tt); (5, 7, tt)])].
Definition snp_case_8_only2_bytes : list N := [1; 1; 2; 0; 196; 1; 3; 1; 4; 1; 69; 1; 1; 2; 1; 3; 5; 2].
(* restored text t = "" *)
(* case 9_gap_own *)
Definition snp_case_9_gap_own_store : wbf_store := [
   (7, [(BItem (mkid 7 0) None None (PNamed [109]) (Some [97]) (BAny [(AString [49])]), true);
        (BSkip (mkid 7 1) 2, false);
        (BItem (mkid 7 3) None None (PNamed [109]) (Some [99]) (BAny [(AString [52])]), false)])].
Definition snp_case_9_gap_own_sv : list (N * N) := [(7, 1)].
Definition snp_case_9_gap_own_ds : idset := [(7, [(0, 1, tt)])].
Definition snp_case_9_gap_own_bytes : list N := [1; 1; 7; 0; 40; 1; 1; 109; 1; 97; 1; 119; 1; 49; 1; 7; 1; 0; 1].
(* restored text t = "" *)
(* case 10_gap_late *)
Definition snp_case_10_gap_late_store : wbf_store := [
   (7, [(BItem (mkid 7 0) None None (PNamed [109]) (Some [97]) (BAny [(AString [49])]), true);
        (BItem (mkid 7 1) None None (PNamed [109]) (Some [98]) (BAny [(AString [50])]), false);
        (BItem (mkid 7 2) (Some (mkid 7 0)) None (PNamed [109]) (Some [97]) (BAny [(AString [51])]), false);
        (BItem (mkid 7 3) None None (PNamed [109]) (Some [99]) (BAny [(AString [52])]), false)])].
Definition snp_case_10_gap_late_sv : list (N * N) := [(7, 1)].
Definition snp_case_10_gap_late_ds : idset := [(7, [(0, 1, tt)])].
Definition snp_case_10_gap_late_bytes : list N := [1; 1; 7; 0; 40; 1; 1; 109; 1; 97; 1; 119; 1; 49; 1; 7; 1; 0; 1].
(* restored text t = "" *)
(* case 11_full *)
Definition snp_case_11_full_store : wbf_store := [
   (7, [(BItem (mkid 7 0) None None (PNamed [109]) (Some [97]) (BAny [(AString [49])]), true);
        (BItem (mkid 7 1) None None (PNamed [109]) (Some [98]) (BAny [(AString [50])]), false);
        (BItem (mkid 7 2) (Some (mkid 7 0)) None (PNamed [109]) (Some [97]) (BAny [(AString [51])]), false);
        (BItem (mkid 7 3) None None (PNamed [109]) (Some [99]) (BAny [(AString [52])]), false)])].
Definition snp_case_11_full_sv : list (N * N) := [(7, 4)].
Definition snp_case_11_full_ds : idset := [(7, [(0, 1, tt)])].
Definition snp_case_11_full_bytes : list N := [1; 4; 7; 0; 40; 1; 1; 109; 1; 97; 1; 119; 1; 49; 40; 1; 1; 109; 1; 98; 1; 119; 1; 50; 168; 7; 0; 1; 119; 1; 51; 40; 1; 1; 109; 1; 99; 1; 119; 1; 52; 1; 7; 1; 0; 1].
(* restored text t = "" *)
(* case 12_cut3 *)
Definition snp_case_12_cut3_store : wbf_store := [
   (7, [(BItem (mkid 7 0) None None (PNamed [109]) (Some [97]) (BAny [(AString [49])]), true);
        (BItem (mkid 7 1) None None (PNamed [109]) (Some [98]) (BAny [(AString [50])]), false);
        (BItem (mkid 7 2) (Some (mkid 7 0)) None (PNamed [109]) (Some [97]) (BAny [(AString [51])]), false);
        (BItem (mkid 7 3) None None (PNamed [109]) (Some [99]) (BAny [(AString [52])]), false)])].
Definition snp_case_12_cut3_sv : list (N * N) := [(7, 3)].
Definition snp_case_12_cut3_ds : idset := [].
Definition snp_case_12_cut3_bytes : list N := [1; 3; 7; 0; 40; 1; 1; 109; 1; 97; 1; 119; 1; 49; 40; 1; 1; 109; 1; 98; 1; 119; 1; 50; 168; 7; 0; 1; 119; 1; 51; 0].
(* restored text t = "" *)
(* case 13_gc_cut *)
Definition snp_case_13_gc_cut_store : wbf_store := [
   (8, [(BGC (mkid 8 0) 5, false)]);
   (9, [(BItem (mkid 9 0) None None (PNamed [116]) None (BDeleted 3), true)])].
Definition snp_case_13_gc_cut_sv : list (N * N) := [(8, 3); (9, 2)].
Definition snp_case_13_gc_cut_ds : idset := [].
Definition snp_case_13_gc_cut_bytes : list N := [2; 1; 9; 0; 1; 1; 1; 116; 2; 1; 8; 0; 0; 3; 0].
(* restored text t = "" *)
(* case 14_gc_own *)
Definition snp_case_14_gc_own_store : wbf_store := [
   (8, [(BGC (mkid 8 0) 5, false)]);
   (9, [(BItem (mkid 9 0) None None (PNamed [116]) None (BDeleted 3), true)])].
Definition snp_case_14_gc_own_sv : list (N * N) := [(8, 5); (9, 3)].
Definition snp_case_14_gc_own_ds : idset := [(8, [(0, 5, tt)]); (9, [(0, 3, tt)])].
Definition snp_case_14_gc_own_bytes : list N := [2; 1; 9; 0; 1; 1; 1; 116; 3; 1; 8; 0; 0; 5; 2; 8; 1; 0; 5; 9; 1; 0; 3].
(* restored text t = "" *)

Example snp_case_1_own_ok : snp_case_check snp_case_1_own_store snp_case_1_own_sv snp_case_1_own_ds snp_case_1_own_bytes.
Proof. vm_compute. repeat split. Qed.
Example snp_case_1_own_snapshot : snp_own_check snp_case_1_own_store snp_case_1_own_sv snp_case_1_own_ds.
Proof. vm_compute. reflexivity. Qed.
Example snp_case_2_cut_ok : snp_case_check snp_case_2_cut_store snp_case_2_cut_sv snp_case_2_cut_ds snp_case_2_cut_bytes.
Proof. vm_compute. repeat split. Qed.
Example snp_case_3_del_ok : snp_case_check snp_case_3_del_store snp_case_3_del_sv snp_case_3_del_ds snp_case_3_del_bytes.
Proof. vm_compute. repeat split. Qed.
Example snp_case_4_s1_late_ok : snp_case_check snp_case_4_s1_late_store snp_case_4_s1_late_sv snp_case_4_s1_late_ds snp_case_4_s1_late_bytes.
Proof. vm_compute. repeat split. Qed.
Example snp_case_5_s2_late_ok : snp_case_check snp_case_5_s2_late_store snp_case_5_s2_late_sv snp_case_5_s2_late_ds snp_case_5_s2_late_bytes.
Proof. vm_compute. repeat split. Qed.
Example snp_case_6_s3_own_ok : snp_case_check snp_case_6_s3_own_store snp_case_6_s3_own_sv snp_case_6_s3_own_ds snp_case_6_s3_own_bytes.
Proof. vm_compute. repeat split. Qed.
Example snp_case_6_s3_own_snapshot : snp_own_check snp_case_6_s3_own_store snp_case_6_s3_own_sv snp_case_6_s3_own_ds.
Proof. vm_compute. reflexivity. Qed.
Example snp_case_7_handmade_ok : snp_case_check snp_case_7_handmade_store snp_case_7_handmade_sv snp_case_7_handmade_ds snp_case_7_handmade_bytes.
Proof. vm_compute. repeat split. Qed.
Example snp_case_8_only2_ok : snp_case_check snp_case_8_only2_store snp_case_8_only2_sv snp_case_8_only2_ds snp_case_8_only2_bytes.
Proof. vm_compute. repeat split. Qed.
Example snp_case_9_gap_own_ok : snp_case_check snp_case_9_gap_own_store snp_case_9_gap_own_sv snp_case_9_gap_own_ds snp_case_9_gap_own_bytes.
Proof. vm_compute. repeat split. Qed.
Example snp_case_9_gap_own_snapshot : snp_own_check snp_case_9_gap_own_store snp_case_9_gap_own_sv snp_case_9_gap_own_ds.
Proof. vm_compute. reflexivity. Qed.
Example snp_case_10_gap_late_ok : snp_case_check snp_case_10_gap_late_store snp_case_10_gap_late_sv snp_case_10_gap_late_ds snp_case_10_gap_late_bytes.
Proof. vm_compute. repeat split. Qed.
Example snp_case_11_full_ok : snp_case_check snp_case_11_full_store snp_case_11_full_sv snp_case_11_full_ds snp_case_11_full_bytes.
Proof. vm_compute. repeat split. Qed.
Example snp_case_12_cut3_ok : snp_case_check snp_case_12_cut3_store snp_case_12_cut3_sv snp_case_12_cut3_ds snp_case_12_cut3_bytes.
Proof. vm_compute. repeat split. Qed.
Example snp_case_13_gc_cut_ok : snp_case_check snp_case_13_gc_cut_store snp_case_13_gc_cut_sv snp_case_13_gc_cut_ds snp_case_13_gc_cut_bytes.
Proof. vm_compute. repeat split. Qed.
Example snp_case_14_gc_own_ok : snp_case_check snp_case_14_gc_own_store snp_case_14_gc_own_sv snp_case_14_gc_own_ds snp_case_14_gc_own_bytes.
Proof. vm_compute. repeat split. Qed.
Example snp_case_14_gc_own_snapshot : snp_own_check snp_case_14_gc_own_store snp_case_14_gc_own_sv snp_case_14_gc_own_ds.
Proof. vm_compute. reflexivity. Qed.

Example snp_case_7_cut_not_ok : snp_cut_ok snp_case_7_handmade_store snp_case_7_handmade_sv = false.
Proof. vm_compute. reflexivity. Qed.

(* cases 2-5: the store is a later state of the store the snapshot was taken from *)
Example snp_case_extends_1_4 : snp_extends_b snp_case_1_own_store snp_case_4_s1_late_store = true
  /\ snp_snapshot_sorted snp_case_1_own_store = (snp_case_4_s1_late_sv, snp_case_4_s1_late_ds)
  /\ snp_case_1_own_bytes <> snp_case_4_s1_late_bytes              (* the blocks are cut differently ... *)
  /\ units_of_update (snp_encode_update snp_case_4_s1_late_store (snp_snapshot snp_case_1_own_store))
     = units_of_update (snp_encode_update snp_case_1_own_store (snp_snapshot snp_case_1_own_store)).   (* ... the units are the same *)
Proof. repeat split; try (vm_compute; reflexivity). vm_compute. discriminate. Qed.
Example snp_case_extends_9_10 : snp_extends_b snp_case_9_gap_own_store snp_case_10_gap_late_store = true
  /\ snp_case_9_gap_own_bytes = snp_case_10_gap_late_bytes
  /\ wbf_no_holes snp_case_9_gap_own_store = false.
Proof. repeat split; vm_compute; reflexivity. Qed.

(* ==== B. the witnesses of SnapshotProofs.v against the bytes Rust returned (snp_replay.rs) ==== *)
(* (a) snp_gap_snapshot_forgets: "restored at once" and "restored later" both gave these bytes; the restored map holds k1 only *)
Definition snp_w_gap_bytes : list N := [1; 1; 1; 0; 40; 1; 1; 109; 2; 107; 49; 1; 119; 2; 118; 49; 0].
Example snp_w_gap_rust :
  snp_snapshot_sorted snp_w_gap_s0 = ([(1, 1)], []) /\
  snp_encode_state_from_snapshot_v1 true snp_w_gap_s0 [(1, 1)] [] = Ok snp_w_gap_bytes [] /\
  snp_encode_state_from_snapshot_v1 true snp_w_gap_s1 [(1, 1)] [] = Ok snp_w_gap_bytes [] /\
  snp_behind_hole snp_w_gap_s0 = [snp_w_gap_unit] /\
  length (wbf_units snp_w_gap_s0) = 2%nat /\
  length (units_of_update (snp_encode_update snp_w_gap_s1 (snp_snapshot snp_w_gap_s0))) = 1%nat.
Proof. repeat split; vm_compute; reflexivity. Qed.
(* a hole at clock 0: the state vector says 0, nothing of the client is written; Rust: bytes [0; 0] *)
Definition snp_w_gap0 : wbf_store := [(1, [(BSkip (mkid 1 0) 1, false); (snp_w_item 1 1 50 50, false)])].
Example snp_w_gap0_rust :
  snp_wf snp_w_gap0 = true /\ snp_snapshot_sorted snp_w_gap0 = ([(1, 0)], []) /\
  snp_encode_state_from_snapshot_v1 true snp_w_gap0 [(1, 0)] [] = Ok [0; 0] [] /\
  length (wbf_units snp_w_gap0) = 1%nat.
Proof. repeat split; vm_compute; reflexivity. Qed.
(* (b) snp_gap_delete_set_dangles *)
Example snp_w_dangle_rust :
  snp_snapshot_sorted snp_w_dangle = ([(1, 1)], [(1, [(2, 3, tt)])]) /\
  snp_encode_state_from_snapshot_v1 true snp_w_dangle [(1, 1)] [(1, [(2, 3, tt)])]
    = Ok [1; 1; 1; 0; 40; 1; 1; 109; 2; 107; 49; 1; 119; 2; 118; 49; 1; 1; 1; 2; 1] [].
Proof. repeat split; vm_compute; reflexivity. Qed.
(* (c) snp_clock_u32_max.  At 7da5187 Rust panics at store.rs:185 (`blocks.clock() + 1`; release: unwrap at store.rs:186) while
   encode_diff_v1 of the same store returns bytes; on the repaired tree (1ea45c9) encode_state_from_snapshot returns the
   bytes below (the whole GC range and the snapshot's delete set) *)
Definition snp_w_max_bytes : list N := [1; 1; 5; 0; 0; 255; 255; 255; 255; 15; 1; 5; 1; 0; 255; 255; 255; 255; 15].
Example snp_w_max_rust :
  snp_wf snp_w_max = true /\ snp_wf_pre_1ea45c9 snp_w_max = false /\
  snp_snapshot_sorted snp_w_max = ([(5, 4294967295)], [(5, [(0, 4294967295, tt)])]) /\
  snp_encode_state_from_snapshot_v1_pre_1ea45c9 true snp_w_max [(5, 4294967295)] [(5, [(0, 4294967295, tt)])] = Panic snp_P_WRITE /\
  snp_encode_state_from_snapshot_v1 true snp_w_max [(5, 4294967295)] [(5, [(0, 4294967295, tt)])] = Ok snp_w_max_bytes [] /\
  wbf_encode_diff_v1 snp_w_max [] = Ok snp_w_max_bytes [].
Proof. repeat split; vm_compute; reflexivity. Qed.
(* (e) snp_gc_guard: before the collection "abc" is restored, after TransactionMut::gc(None) the answer is still Ok and
   the text is gone *)
Example snp_w_gc_rust :
  snp_encode_state_from_snapshot_v1 true snp_w_gc_s0 [(1, 3)] [] = Ok [1; 1; 1; 0; 4; 1; 1; 116; 3; 97; 98; 99; 0] [] /\
  snp_encode_state_from_snapshot_v1 true snp_w_gc_s1 [(1, 3)] [] = Ok [1; 1; 1; 0; 1; 1; 1; 116; 3; 0] [] /\
  snp_encode_state_from_snapshot_v1 false snp_w_gc_s0 [(1, 3)] [] = Err Custom /\
  snp_snapshot_sorted snp_w_gc_s0 = ([(1, 3)], []).
Proof. repeat split; vm_compute; reflexivity. Qed.
(* a nested map deleted and collected: the child is a GC range; snapshot taken before the deletion *)
Definition snp_w_gc_nested_s0 : wbf_store :=
  [(1, [(BItem (mkid 1 0) None None (PNamed [109]) (Some [107]) (BType TMap), false);
        (BItem (mkid 1 1) None None (PId (mkid 1 0)) (Some [120]) (BAny [AString [121]]), false)])].
Definition snp_w_gc_nested_s1 : wbf_store :=
  [(1, [(BItem (mkid 1 0) None None (PNamed [109]) (Some [107]) (BDeleted 1), true); (BGC (mkid 1 1) 1, false)])].
Example snp_w_gc_nested_rust :
  snp_extends_ids_b snp_w_gc_nested_s0 snp_w_gc_nested_s1 = true /\ snp_extends_b snp_w_gc_nested_s0 snp_w_gc_nested_s1 = false /\
  snp_snapshot_sorted snp_w_gc_nested_s0 = ([(1, 2)], []) /\
  snp_encode_state_from_snapshot_v1 true snp_w_gc_nested_s1 [(1, 2)] [] = Ok [1; 2; 1; 0; 33; 1; 1; 109; 1; 107; 1; 0; 1; 0] [].
Proof. repeat split; vm_compute; reflexivity. Qed.

(* ==== non-vacuity of the hypotheses ==== *)
(* snp_wf, wbf_sv_ok, snp_cut_ok hold together on stores with holes, GC ranges, deleted items, two clients (the cases
   above); snp_cut_ok can fail (case 7, snp_w_pair); snp_extends holds between different cuttings of the same units *)
Example snp_hyp_nonvacuous :
  snp_hypotheses snp_case_6_s3_own_store snp_case_6_s3_own_sv = (true, true, true) /\
  snp_hypotheses snp_case_9_gap_own_store snp_case_9_gap_own_sv = (true, true, true) /\
  snp_hypotheses snp_case_13_gc_cut_store snp_case_13_gc_cut_sv = (true, true, true) /\
  snp_hypotheses snp_w_pair [(1, 1)] = (true, true, false) /\
  snp_hypotheses snp_w_max [(5, 1)] = (true, true, true) /\ snp_wf_pre_1ea45c9 snp_w_max = false /\
  snp_extends_b snp_case_2_cut_store snp_case_3_del_store = true /\          (* a block split by a deletion *)
  snp_extends_b snp_case_3_del_store snp_case_4_s1_late_store = true /\      (* more units, more deletions, a second client *)
  snp_extends_b snp_w_gap_s0 snp_w_gap_s1 = true /\                          (* a hole filled *)
  snp_extends_b snp_case_4_s1_late_store snp_case_3_del_store = false /\
  wbf_no_holes snp_case_6_s3_own_store = true /\ wbf_no_holes snp_w_gap_s0 = false.
Proof. repeat split; vm_compute; reflexivity. Qed.
(* theorem 4 on real stores: three later states, one snapshot *)
Example snp_later_invisible_cases :
  units_of_update (snp_encode_update snp_case_2_cut_store (snp_snapshot snp_case_1_own_store))
  = units_of_update (snp_encode_update snp_case_4_s1_late_store (snp_snapshot snp_case_1_own_store)) /\
  units_of_update (snp_encode_update snp_case_3_del_store (snp_snapshot snp_case_1_own_store))
  = units_of_update (snp_encode_update snp_case_4_s1_late_store (snp_snapshot snp_case_1_own_store)).
Proof. split; vm_compute; reflexivity. Qed.

(* the functions a driver extracts, on real stores *)
Example snp_driver_functions :
  snp_restore_units snp_case_4_s1_late_store snp_case_4_s1_late_sv
    = units_of_update (snp_encode_update snp_case_4_s1_late_store (snp_case_4_s1_late_sv, snp_case_4_s1_late_ds)) /\
  length (snp_restore_units snp_case_4_s1_late_store snp_case_4_s1_late_sv) = 5%nat /\
  snp_no_holes snp_case_4_s1_late_store = true /\ snp_no_holes snp_case_9_gap_own_store = false /\
  snp_restore_units snp_w_gap_s1 (fst (snp_snapshot_sorted snp_w_gap_s0)) = filter (snp_old [(1, 1)]) (wbf_units_desc snp_w_gap_s0).
Proof. repeat split; vm_compute; reflexivity. Qed.
