(* Concrete cases for YataBlocksMore.v / YataBlocksMoreProofs.v: non-vacuity of the new hypotheses. *)
From Coq Require Import List NArith ZArith Bool.
From YV Require Import Codec.UpdateV1 Crdt.Doc Crdt.Blocks Crdt.YataBlocks.
From YV.Crdt Require Import YataBlocksMore.
Import ListNotations.
Open Scope N_scope.

Definition yibm_p : parent := PNamed [116].
Definition yibm_str (c k : N) (o ro : option id) (s : list N) : yib_blk :=
  yib_mk (BItem (mkid c k) o ro yibm_p None (BString s)) false.
Definition yibm_ent (c k : N) (o ro : option id) (v : list (list N)) : yib_blk :=
  yib_mk (BItem (mkid c k) o ro yibm_p (Some [107]) (BJson v)) false.

(* yib_cut_ok holds for a cut in the middle of an ASCII block (origin 1:1, right origin 1:2 of "abc") *)
Example yibm_cut_ok_mid :
  let s := [yibm_str 1 0 None None [97; 98; 99]] in
  let b := yibm_str 2 0 (Some (mkid 1 1)) (Some (mkid 1 2)) [88; 89] in
  yib_seq_ok s = true /\ yib_fresh s b = true /\ yib_cut_ok s b = true.
Proof. vm_compute. repeat split. Qed.
(* a block that is U+1F600 (two UTF-16 units 1:0, 1:1) followed by "a": origin = the high half (1:0) is refused,
   origin = the low half (1:1) is accepted; the first is what a Yjs peer (UTF-16 strings) can send *)
Example yibm_cut_ok_surrogate :
  let s := [yibm_str 1 0 None None [240; 159; 152; 128; 97]] in
  yib_seq_ok s = true /\
  yib_cut_ok s (yibm_str 2 0 (Some (mkid 1 0)) None [88]) = false /\
  yib_integrate s (yibm_str 2 0 (Some (mkid 1 0)) None [88]) = yib_fail 2 /\
  yib_cut_ok s (yibm_str 2 0 (Some (mkid 1 1)) None [88]) = true /\
  yib_cut_ok s (yibm_str 2 0 (Some (mkid 1 2)) (Some (mkid 1 1)) [88]) = false.
Proof. vm_compute. repeat split. Qed.

(* a history of three blocks, each fresh for the state it meets *)
Example yibm_hist_ok :
  yib_hist_ok [] [yibm_str 1 0 None None [97; 98; 99];
                  yibm_str 2 0 (Some (mkid 1 1)) (Some (mkid 1 2)) [88; 89];
                  yibm_str 3 0 (Some (mkid 1 1)) (Some (mkid 1 2)) [90]] = true /\
  match yib_integrate_all [] [yibm_str 1 0 None None [97; 98; 99];
                  yibm_str 2 0 (Some (mkid 1 1)) (Some (mkid 1 2)) [88; 89];
                  yibm_str 3 0 (Some (mkid 1 1)) (Some (mkid 1 2)) [90]] with
  | yib_ok s' => map (fun b => (cl (yib_id b), ck (yib_id b), yib_len b)) s' = [(1, 0, 2); (2, 0, 2); (3, 0, 1); (1, 2, 1)]
  | yib_fail _ => False
  end.
Proof. vm_compute. split; reflexivity. Qed.

(* the hypotheses of yib_map_entry_refines: a chain of one-unit entries, a concurrent writer *)
Example yibm_map_hyps :
  let s := [yib_mk (yib_b (yibm_ent 1 0 None None [[1]])) true; yibm_ent 2 0 (Some (mkid 1 0)) None [[2]]] in
  let b := yibm_ent 3 0 (Some (mkid 1 0)) None [[3]] in
  yib_seq_ok s = true /\ yib_fresh s b = true /\ yib_len b = 1 /\ forallb (fun B => yib_len B =? 1) s = true /\
  map (fun u => (cl (did u), d_del u)) (yib_expand (yib_get [] (yib_integrate s b))) = [(1, true); (2, true); (3, false)] /\
  map (fun u => (cl (did u), d_del u)) (fold_left yib_umap_step (yib_ditems b) (yib_expand s)) = [(1, true); (2, true); (3, false)].
Proof. vm_compute. repeat split. Qed.
