(* C02: no update is lost or stuck because of delivery order (causal-gap buffer).
   Statements only; proofs are in Crdt/DeliverProofs.v.  [deliver d w] integrates, out of the waiting
   operations [w], everything whose explicit dependencies (origin, right origin, parent, quoted ids) are
   integrated, repeatedly, and returns the rest as the stash. *)
From Coq Require Import List NArith Bool Permutation.
From YV Require Import Codec.UpdateV1 Crdt.Doc Crdt.DeliverProofs.
Import ListNotations.

(* nothing is dropped: every delivered operation is integrated or still stashed *)
Theorem C02_never_drops : forall d w d' stash, deliver d w = (d', stash) ->
  (forall x, In x w -> integrated d' (xid x) = true \/ In x stash) /\ incl stash w.
Proof. exact deliver_never_drops. Qed.

(* the stash is non-empty exactly while some delivered operation lacks a dependency *)
Theorem C02_stashed_iff_dependency_absent : forall d w d' stash, deliver d w = (d', stash) ->
  (forall x, In x stash -> integrated d' (xid x) = false /\ ready d' x = false /\
                           exists i, In i (deps x) /\ integrated d' i = false)
  /\ (stash = [] <-> forall x, In x w -> integrated d' (xid x) = true).
Proof. intros d w d' st H; split; [apply (deliver_stash_blocked _ _ _ _ H) | apply (deliver_stash_empty_iff _ _ _ _ H)]. Qed.

(* liveness: once the delivered set is dependency-closed (in SOME order, i.e. whatever the arrival order was),
   nothing stays pending *)
Theorem C02_liveness : forall d w w' d' stash, deliver d w = (d', stash) -> Permutation w w' ->
  (forall pre x post, w' = pre ++ x :: post ->
     forall i, In i (deps x) -> integrated d i = true \/ exists y, In y pre /\ xid y = i) ->
  stash = [] /\ forall x, In x w -> integrated d' (xid x) = true.
Proof. exact deliver_liveness. Qed.

(* what is integrated stays integrated; re-delivery of known operations changes nothing;
   only delivered operations become integrated *)
Theorem C02_monotone_idempotent_exact : forall d w,
  (forall i, integrated d i = true -> integrated (fst (deliver d w)) i = true)
  /\ ((forall x, In x w -> integrated d (xid x) = true) -> deliver d w = (d, []))
  /\ (forall i, integrated (fst (deliver d w)) i = true -> integrated d i = true \/ exists x, In x w /\ xid x = i).
Proof. intros d w; repeat split; [apply deliver_monotone | apply deliver_idempotent | apply deliver_exact]. Qed.

(* non-vacuity: an operation whose origin is missing is stashed; delivering the origin releases it *)
Example C02_stash_then_release :
  let a := XItem (mkop (mkid 1 0) None None (PNamed []) None (UString 97)) in
  let b := XItem (mkop (mkid 1 1) (Some (mkid 1 0)) None PUnknown None (UString 98)) in
  (snd (deliver empty_doc [b]) = [b]) /\ (snd (deliver empty_doc [b; a]) = [])%N.
Proof. split; reflexivity. Qed.

(* ---- the algorithm of the implementation (Crdt/Integrate.v: TransactionMut::apply_update, Update::integrate, BlockPicker, the retry of the stash) ---- *)
From YV Require Import Lib.Bytes Ids.Ranges Crdt.Blocks Crdt.Merge Crdt.Integrate Crdt.IntegrateProofs Crdt.IntegrateCases.
Open Scope N_scope.
(* transcription of apply_update / Update::integrate / BlockPicker (Crdt/Integrate.v): in every reachable store every dependency of an integrated block was integrated before it, and no id is integrated twice   [Crdt/IntegrateProofs.v: itg_causal_safety] *)
Theorem C02_block_integrated_only_after_its_dependencies : forall s, itg_reachable s ->
  (forall i, itg_has (itg_blocks s) i = itg_log_has (itg_log s) i) /\
  itg_log_causal (itg_log s) /\
  itg_log_disjoint (itg_log s) /\
  (forall b, In b (itg_log s) -> forall d, In d (itg_deps b) ->
     itg_has (itg_blocks s) d = true /\ itg_is_missing (itg_blocks s) d = false).
Proof. exact YV.Crdt.IntegrateProofs.itg_causal_safety. Qed.

(* the picker loop and the retry of the stash terminate for any update and any stash   [Crdt/IntegrateProofs.v: itg_apply_terminates] *)
Theorem C02_apply_update_terminates : forall s u, itg_blocks_wf (itg_blocks s) = true -> itg_apply_update_res s u <> itg_nofuel.
Proof. exact YV.Crdt.IntegrateProofs.itg_apply_terminates. Qed.

(* every id of the incoming update is already known, integrated now, or in the rest that is merged into the stash   [Crdt/IntegrateProofs.v: itg_step_conserves] *)
Theorem C02_nothing_lost_between_store_and_stash : forall mrg s u s1 retry,
  itg_blocks_ok (itg_blocks s) -> itg_update_wf (u_blocks (itg_abs_update u)) = true ->
  itg_step_with mrg s u = itg_ok (s1, retry) ->
  exists new rem,
    itg_log s1 = new ++ itg_log s /\
    itg_pend s1 = match itg_pend s with
                  | Some p => Some (match rem with
                                    | Some r => itg_mkpending (mrg (itg_p_update p) (itg_p_update r))
                                                  (itg_merge_missing (itg_p_missing p) (itg_p_missing r))
                                    | None => p
                                    end)
                  | None => rem
                  end /\
    forall c d j, In (c, d) (u_blocks (itg_abs_update u)) -> itg_dcov d j = true ->
      itg_has (itg_blocks s) (mkid c j) = true \/
      itg_log_has new (mkid c j) = true \/
      exists r rest, rem = Some r /\ itg_get (u_blocks (itg_p_update r)) c = Some rest /\ itg_dcov rest j = true.
Proof. exact YV.Crdt.IntegrateProofs.itg_step_conserves. Qed.

(* every entry of pending.missing was missing when the block was set aside   [Crdt/IntegrateProofs.v: itg_missing_guarantee] *)
Theorem C02_missing_vector_is_honest : forall mrg s u s1 retry p e,
  itg_blocks_ok (itg_blocks s) -> itg_pend s = None ->
  itg_step_with mrg s u = itg_ok (s1, retry) -> itg_pend s1 = Some p -> In e (itg_p_missing p) ->
  itg_is_missing (itg_blocks s) (mkid (fst e) (snd e)) = true /\
  (itg_is_missing (itg_blocks s1) (mkid (fst e) (snd e)) = false ->
   exists new b, itg_log s1 = new ++ itg_log s /\ In b new /\ itg_covers b (mkid (fst e) (snd e)) = true).
Proof. exact YV.Crdt.IntegrateProofs.itg_missing_guarantee. Qed.

(* an update whose dependencies are integrated or lower-ranked blocks of itself leaves nothing pending   [Crdt/IntegrateProofs.v: itg_integrate_complete] *)
Theorem C02_closed_update_is_integrated_completely : forall bs blocks0 log0 rank blocks' log' rem,
  itg_update_ok bs -> itg_inv_bl blocks0 log0 ->
  itg_closed_R1 bs blocks0 rank -> itg_closed_R2 bs rank ->
  itg_integrate blocks0 log0 bs = itg_ok (blocks', log', rem) ->
  rem = None /\ exists new, log' = new ++ log0 /\
    forall c D b, In (c, D) bs -> In b D -> itg_is_skip b = false -> In b new.
Proof. exact YV.Crdt.IntegrateProofs.itg_integrate_complete. Qed.

(* retry fires exactly when an entry of the old pending.missing is no longer missing   [Crdt/IntegrateProofs.v: itg_retry_progress] *)
Theorem C02_stash_is_retried_when_a_dependency_arrives : forall s u p s1 retry,
  itg_pend s = Some p -> itg_step s u = itg_ok (s1, retry) ->
  retry = existsb (fun e => negb (itg_is_missing (itg_blocks s1) (mkid (fst e) (snd e)))) (itg_p_missing p) /\
  (retry = true ->
   exists p', itg_pend s1 = Some p' /\
     itg_apply_update_res s u =
       itg_bind (itg_step (itg_mkstore (itg_blocks s1) None (itg_log s1)) (itg_p_update p')) (fun sr1 =>
       itg_bind (itg_step (fst sr1) itg_empty_update) (fun sr2 =>
         if snd sr2 then itg_retry (pred (itg_retry_fuel s1)) (fst sr2) else itg_ok (fst sr2)))).
Proof. exact YV.Crdt.IntegrateProofs.itg_retry_progress. Qed.

(* what the implementation's algorithm integrates is a subset of what the abstract delivery (full causal closure) integrates   [Crdt/IntegrateProofs.v: itg_sub_deliver_with] *)
Theorem C02_integrates_at_most_the_causal_closure : forall mrg W s u s' (d : doc),
  (itg_pend s <> None -> forall a b, itg_upd_sub W a -> itg_upd_sub W b -> itg_upd_sub W (mrg a b)) ->
  itg_inv s ->
  (forall p, itg_pend s = Some p -> itg_upd_sub W (itg_p_update p)) -> itg_upd_sub W u ->
  (forall i, itg_has (itg_blocks s) i = true -> integrated d i = true) ->
  itg_apply_with mrg s u = itg_ok s' ->
  forall i, itg_has (itg_blocks s') i = true -> integrated (fst (deliver d W)) i = true.
Proof. exact YV.Crdt.IntegrateProofs.itg_sub_deliver_with. Qed.

(* equality under the hypotheses of completeness   [Crdt/IntegrateProofs.v: itg_deliver_equal] *)
Theorem C02_and_exactly_the_closure_for_closed_updates : forall s u (rho : id -> nat) s' (d : doc),
  itg_inv s -> itg_pend s = None ->
  itg_update_wf (u_blocks (itg_abs_update u)) = true ->
  (forall c dq b, In (c, dq) (u_blocks (itg_abs_update u)) -> In b dq -> itg_is_skip b = false ->
     forall dep, In dep (itg_deps b) ->
     itg_has (itg_blocks s) dep = true \/
     ((rho dep < rho (block_id b))%nat /\
      exists d2, In (cl dep, d2) (u_blocks (itg_abs_update u)) /\ itg_dcov d2 (ck dep) = true)) ->
  (forall c dq j1 j2, In (c, dq) (u_blocks (itg_abs_update u)) -> itg_dcov dq j1 = true -> itg_dcov dq j2 = true ->
     j1 < j2 -> (rho (mkid c j1) < rho (mkid c j2))%nat) ->
  (forall i, itg_has (itg_blocks s) i = integrated d i) ->
  itg_apply_update_res s u = itg_ok s' ->
  forall i, itg_has (itg_blocks s') i = integrated (fst (deliver d (units_of_update (itg_abs_update u)))) i.
Proof. exact YV.Crdt.IntegrateProofs.itg_deliver_equal. Qed.

(* a block whose own dependencies are all integrated stays in the stash behind another block of its client   [Crdt/IntegrateCases.v: itg_complete_refuted] *)
Theorem C06_KNOWN_FINDING_block_stuck_behind_its_clients_stuck_block :
  match itg_stuck_store with
  | Some s =>
      forallb (fun d => itg_has (itg_blocks s) d && negb (itg_is_missing (itg_blocks s) d)) (itg_deps itg_stuck_block)
      && negb (itg_has (itg_blocks s) (mkid 20 13))
      && match itg_pend s with
         | Some p => existsb (fun e => existsb (fun b => id_eqb (block_id b) (mkid 20 13) &&
                                                   oid_eqb (match b with BItem _ o _ _ _ _ => o | _ => None end) (Some (mkid 20 7)))
                                               (snd e)) (u_blocks (itg_p_update p))
         | None => false
         end
      && itg_list_eqb itg_nn_eqb (itg_obs_missing s) [(20, 5)]
  | None => false
  end = true.
Proof. exact YV.Crdt.IntegrateCases.itg_complete_refuted. Qed.

(* applying the same update again integrates it   [Crdt/IntegrateCases.v: itg_complete_refuted_second_application] *)
Theorem C06_KNOWN_FINDING_second_application_frees_it :
  match itg_stuck_store, itg_stuck_update with
  | Some s, Some u =>
      match itg_apply_update_res s u with
      | itg_ok s' => itg_has (itg_blocks s') (mkid 20 13) && itg_obs_has_pending s'
      | _ => false
      end
  | _, _ => false
  end = true.
Proof. exact YV.Crdt.IntegrateCases.itg_complete_refuted_second_application. Qed.

(* ---- appended: the end-to-end theorems about the block-level transcription (Crdt/Integrate.v, Crdt/Stash.v) ---- *)
From Coq Require Import Sorted.
From YV Require Import Crdt.Blocks Crdt.Merge Crdt.Integrate Crdt.Stash Crdt.MergeProofs Crdt.IntegrateProofs Crdt.StashProofs.
(* END TO END, unbounded, about the transcription of apply_update / Update::integrate / BlockPicker / missing_dependency / the retry decision: for every causally closed history and every delivery sequence over it (any order, any cutting, any merging by merge_updates, duplicates, empty updates) in which every id is delivered at least once, the run never fails and ends with no stash, no hole, and exactly the ids of the history integrated   [Crdt/StashProofs.v: itg2_eventually_empty_total] *)
Theorem C02_eventually_empty : forall H rho W us,
  itg2_history H rho -> NoDup (map xid W) ->
  Forall (itg2_deliverable H rho W) us ->
  (forall i, itg2_cov H i = true -> itg2_cov_us us i = true) ->
  exists s, itg2_run itg_empty us = itg_ok s /\
    itg_obs_has_pending s = false /\ itg_obs_missing s = [] /\ itg_obs_pending s = [] /\
    itg_obs_holes s = [] /\
    (forall i, itg_has (itg_blocks s) i = itg2_cov H i) /\
    (forall e, In e (itg_obs_ranges s) ->
       exists n, snd e = [(0, n)] /\ 0 < n /\ forall j, itg2_cov H (mkid (fst e) j) = (j <? n)).
Proof. exact YV.Crdt.StashProofs.itg2_eventually_empty_total. Qed.

(* at every moment every delivered id is in the store or in the stash, and nothing outside the history is integrated   [Crdt/StashProofs.v: itg2_no_loss] *)
Theorem C02_nothing_delivered_is_ever_dropped : forall H rho W us s,
  itg2_history H rho -> NoDup (map xid W) ->
  Forall (itg2_deliverable H rho W) us -> itg2_run itg_empty us = itg_ok s ->
  (forall i, itg2_cov_us us i = true -> itg_has (itg_blocks s) i = true \/ itg2_cov_pend (itg_pend s) i = true) /\
  (forall i, itg_has (itg_blocks s) i = true -> itg2_cov H i = true).
Proof. exact YV.Crdt.StashProofs.itg2_no_loss. Qed.

(* whenever apply_update returns, every stashed id is ranked above an id of the history that is not integrated yet (the invariant defect 0a72352 violated)   [Crdt/StashProofs.v: itg2_progress_step] *)
Theorem C02_retry_decision_is_sufficient : forall H rho W s u s',
  itg2_history H rho -> NoDup (map xid W) ->
  itg2_I H rho W s -> itg2_deliverable H rho W u -> itg_apply_update_res s u = itg_ok s' ->
  itg2_I H rho W s' /\
  forall i, itg2_cov_pend (itg_pend s') i = true ->
    exists j, itg2_cov H j = true /\ (rho j < rho i)%nat /\ itg_has (itg_blocks s') j = false.
Proof. exact YV.Crdt.StashProofs.itg2_progress_step. Qed.

(* no unwrap, no overwrite in BlockStore::push, no fuel exhaustion   [Crdt/StashProofs.v: itg2_apply_total] *)
Theorem C02_apply_update_never_fails_on_deliverable_updates : forall H rho W s u, itg2_history H rho -> NoDup (map xid W) ->
  itg2_I H rho W s -> itg2_deliverable H rho W u -> exists s', itg_apply_update_res s u = itg_ok s'.
Proof. exact YV.Crdt.StashProofs.itg2_apply_total. Qed.

(* non-vacuity of 'deliverable': every piece of a block of a causally closed block list is   [Crdt/StashProofs.v: itg2_pieces_deliverable] *)
Theorem C02_pieces_of_a_closed_history_are_deliverable : forall H rho W u,
  itg2_history H rho -> itg2_closed H rho ->
  itg_update_wf (u_blocks (itg_abs_update u)) = true ->
  (forall y, itg2_in (u_blocks (itg_abs_update u)) y ->
     incl (units_of_block y) W /\ exists b, itg2_in H b /\ itg2_piece y b) ->
  itg2_deliverable H rho W u.
Proof. exact YV.Crdt.StashProofs.itg2_pieces_deliverable. Qed.
