(* C02: no update is lost or stuck because of delivery order (causal-gap buffer).
   Statements only; proofs are in Crdt/DeliverProofs.v.  [deliver d w] integrates, out of the waiting
   operations [w], everything whose explicit dependencies (origin, right origin, parent, quoted ids) are
   integrated, repeatedly, and returns the rest as the stash. *)
From Coq Require Import List NArith Bool Permutation.
From YV Require Import Codec.UpdateV1 Crdt.Doc Crdt.DeliverProofs.
Import ListNotations.

(* nothing is dropped: every delivered operation is integrated or still stashed *)
Theorem C02_never_drops : forall d w d' stash, deliver d w = (d', stash) ->
  (forall x, In x w -> integrated d' (xid x) = true \/ In x stash) /\ incl stash w.
Proof. exact deliver_never_drops. Qed.

(* the stash is non-empty exactly while some delivered operation lacks a dependency *)
Theorem C02_stashed_iff_dependency_absent : forall d w d' stash, deliver d w = (d', stash) ->
  (forall x, In x stash -> integrated d' (xid x) = false /\ ready d' x = false /\
                           exists i, In i (deps x) /\ integrated d' i = false)
  /\ (stash = [] <-> forall x, In x w -> integrated d' (xid x) = true).
Proof. intros d w d' st H; split; [apply (deliver_stash_blocked _ _ _ _ H) | apply (deliver_stash_empty_iff _ _ _ _ H)]. Qed.

(* liveness: once the delivered set is dependency-closed (in SOME order, i.e. whatever the arrival order was),
   nothing stays pending *)
Theorem C02_liveness : forall d w w' d' stash, deliver d w = (d', stash) -> Permutation w w' ->
  (forall pre x post, w' = pre ++ x :: post ->
     forall i, In i (deps x) -> integrated d i = true \/ exists y, In y pre /\ xid y = i) ->
  stash = [] /\ forall x, In x w -> integrated d' (xid x) = true.
Proof. exact deliver_liveness. Qed.

(* what is integrated stays integrated; re-delivery of known operations changes nothing;
   only delivered operations become integrated *)
Theorem C02_monotone_idempotent_exact : forall d w,
  (forall i, integrated d i = true -> integrated (fst (deliver d w)) i = true)
  /\ ((forall x, In x w -> integrated d (xid x) = true) -> deliver d w = (d, []))
  /\ (forall i, integrated (fst (deliver d w)) i = true -> integrated d i = true \/ exists x, In x w /\ xid x = i).
Proof. intros d w; repeat split; [apply deliver_monotone | apply deliver_idempotent | apply deliver_exact]. Qed.

(* non-vacuity: an operation whose origin is missing is stashed; delivering the origin releases it *)
Example C02_stash_then_release :
  let a := XItem (mkop (mkid 1 0) None None (PNamed []) None (UString 97)) in
  let b := XItem (mkop (mkid 1 1) (Some (mkid 1 0)) None PUnknown None (UString 98)) in
  (snd (deliver empty_doc [b]) = [b]) /\ (snd (deliver empty_doc [b; a]) = [])%N.
Proof. split; reflexivity. Qed.
