(* C04: sequence elements - exactly once, stable relative order, placed where inserted.
   Statements only; proofs are in Crdt/YataProofs.v.  The list [l] is one sequence of one replica
   INCLUDING tombstones; [yata_insert] is the transcription of Item::resolve_conflict + relinking. *)
From Coq Require Import List NArith Bool Permutation.
From YV Require Import Lib.Bytes Codec.UpdateV1 Crdt.Doc Crdt.YataProofs Crdt.Blocks Crdt.BlocksProofs.
Import ListNotations.

(* integration only inserts: nothing is moved, dropped or duplicated *)
Theorem C04_inserted_exactly_once : forall l x,
  (exists l1 l2, l = l1 ++ l2 /\ yata_insert l x = l1 ++ x :: l2) /\ Permutation (x :: l) (yata_insert l x).
Proof. intros l x; split; [apply yata_insert_inserts_once | apply yata_insert_perm]. Qed.

(* any two elements keep their relative order, in every later state of the replica *)
Theorem C04_relative_order_stable : forall l x a b l1 l2 l3,
  l = l1 ++ a :: l2 ++ b :: l3 -> exists m1 m2 m3, yata_insert l x = m1 ++ a :: m2 ++ b :: m3.
Proof. exact yata_insert_order_stable. Qed.

(* an element inserted between two neighbours lies between them *)
Theorem C04_placed_between_origins : forall l x o r pre yo mid yr post,
  oorigin (d_op x) = Some o -> ororigin (d_op x) = Some r -> NoDup (map did l) ->
  l = pre ++ yo :: mid ++ yr :: post -> did yo = o -> did yr = r ->
  exists m1 m2, mid = m1 ++ m2 /\ yata_insert l x = pre ++ yo :: m1 ++ x :: m2 ++ yr :: post.
Proof. exact yata_insert_between_origins. Qed.

Theorem C04_placed_right_of_origin : forall l x o pre yo post,
  oorigin (d_op x) = Some o -> NoDup (map did l) -> l = pre ++ yo :: post -> did yo = o ->
  exists m1 m2, post = m1 ++ m2 /\ yata_insert l x = pre ++ yo :: m1 ++ x :: m2.
Proof. exact yata_insert_right_of_origin. Qed.

Theorem C04_placed_left_of_right_origin : forall l x r mid yr post,
  oorigin (d_op x) = None -> ororigin (d_op x) = Some r -> l = mid ++ yr :: post -> did yr = r ->
  exists m1 m2, mid = m1 ++ m2 /\ yata_insert l x = m1 ++ x :: m2 ++ yr :: post.
Proof. exact yata_insert_left_of_rorigin. Qed.

(* once deleted, never visible again: through any further delivery of updates and delete sets *)
Theorem C04_deleted_never_visible_again : forall d waiting s,
  del_le d (fst (deliver d waiting)) /\ del_le d (apply_ds d s).
Proof. intros; split; [apply deliver_del_le | apply apply_ds_del_le]. Qed.

(* non-vacuity: a concrete concurrent insertion between two existing units *)
Example C04_between_example :
  let mk c k o r := mkditem (mkop (mkid c k) o r (PNamed []) None (UString 97)) false in
  let l := [mk 1 0 None None; mk 1 1 (Some (mkid 1 0)) None]%N in
  map did (yata_insert l (mk 2 0 (Some (mkid 1 0)) (Some (mkid 1 1)))%N) = [mkid 1 0; mkid 2 0; mkid 1 1]%N.
Proof. reflexivity. Qed.

(* ---- block layer (Crdt/Blocks.v: ItemPtr::splice, ItemPtr::try_squash, BlockRange slice / merge) ----
   Blocks are a compression of units: splitting and squashing never change any unit (id, origin, right origin,
   parent, content), and every condition try_squash tests is NEEDED for that.  Tie to the code: the unit-level
   view of every replica's full state is compared with the unit-level view of the updates as first emitted
   (harness hist.rs, runner command `DEC unitcmp`). *)
Theorem C04_split_changes_no_unit : forall b k l r, blk_wf b = true ->
  blk_split b k = Some (l, r) -> units_of_block b = units_of_block l ++ units_of_block r.
Proof. exact blk_split_units. Qed.

Theorem C04_squash_changes_no_unit : forall a b, blk_wf a = true -> blk_wf b = true -> blk_nonempty a = true ->
  blk_can_squash a b = true -> units_of_block (blk_squash a b) = units_of_block a ++ units_of_block b.
Proof. exact blk_squash_units. Qed.

Theorem C04_split_then_squash_is_identity : forall b k l r,
  blk_split b k = Some (l, r) -> blk_can_squash l r = true /\ blk_squash l r = b.
Proof. exact blk_split_squash. Qed.

(* a block standing for the units of a followed by the units of b exists ONLY under the conditions try_squash tests *)
Theorem C04_squash_conditions_are_necessary :
  forall ia oa roa pa psa ca ib ob rob pb psb cb x,
    content_units ca <> [] -> content_units cb <> [] ->
    units_of_block x =
      units_of_block (BItem ia oa roa pa psa ca) ++ units_of_block (BItem ib ob rob pb psb cb) ->
    let n := N.of_nat (length (content_units ca)) in
    cl ia = cl ib /\ ck ia + n = ck ib /\ ob = Some (mkid (cl ia) (ck ia + n - 1)) /\
    roa = rob /\ pa = pb /\ psa = psb /\
    exists cx, x = BItem ia oa roa pa psa cx /\ content_units cx = content_units ca ++ content_units cb.
Proof. exact blk_squash_conditions_necessary. Qed.

(* non-vacuity and the witness for the right-origin condition: merging two runs that differ only in their right
   origin loses the right origin of the second run *)
Example C04_squash_without_equal_right_origins_changes_units :
  blk_can_squash blk_ex_ro_a blk_ex_ro_b = false /\
  units_of_block (blk_squash blk_ex_ro_a blk_ex_ro_b) <> units_of_block blk_ex_ro_a ++ units_of_block blk_ex_ro_b.
Proof. split; [exact blk_ex_ro_rejected | apply blk_ex_ro_lost]. Qed.

(* ---- appended: the block-level transcription of Item::integrate (Crdt/YataBlocks.v) ---- *)
From YV Require Import Gen.Consts Codec.Varint Codec.AnyCodec Codec.IdSetCodec Crdt.Blocks Crdt.YataBlocks Crdt.YataBlocksProofs.
(* Item::integrate on blocks places every unit of the incoming block where the unit-level integration places it (so the theorems above, stated on units, speak about what the block-level code does)   [Crdt/YataBlocksProofs.v: yib_integrate_refines_units] *)
Theorem C04_block_integration_refines_unit_integration : forall s b pdel s',
  yib_seq_ok s = true -> yib_fresh s b = true -> yib_psub b = None ->
  yib_integrate_off s b 0 pdel = yib_ok s' ->
  yib_expand s' = fold_left yata_insert (yib_ditems (yib_arrival b pdel)) (yib_expand s).
Proof. exact YV.Crdt.YataBlocksProofs.yib_integrate_refines_units. Qed.

(* no unit moves, appears or disappears when a block is split   [Crdt/YataBlocksProofs.v: yib_splits_are_invisible] *)
Theorem C04_block_splits_are_invisible : forall s1 b s2 k l r,
  blk_wf (yib_b b) = true -> blk_split (yib_b b) k = Some (l, r) ->
  yib_expand (s1 ++ yib_mk l (yib_del b) :: yib_mk r (yib_del b) :: s2) = yib_expand (s1 ++ b :: s2).
Proof. exact YV.Crdt.YataBlocksProofs.yib_splits_are_invisible. Qed.

(* placed where inserted, however the receiving replica has its blocks cut   [Crdt/YataBlocksProofs.v: yib_position_independent_of_blocking] *)
Theorem C04_position_does_not_depend_on_the_blocking : forall s1 s2 b pdel r1 r2,
  yib_seq_ok s1 = true -> yib_seq_ok s2 = true -> yib_expand s1 = yib_expand s2 ->
  yib_fresh s1 b = true -> yib_fresh s2 b = true -> yib_psub b = None ->
  yib_integrate_off s1 b 0 pdel = yib_ok r1 -> yib_integrate_off s2 b 0 pdel = yib_ok r2 ->
  yib_expand r1 = yib_expand r2.
Proof. exact YV.Crdt.YataBlocksProofs.yib_position_independent_of_blocking. Qed.
