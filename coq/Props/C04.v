(* C04: sequence elements - exactly once, stable relative order, placed where inserted.
   Statements only; proofs are in Crdt/YataProofs.v.  The list [l] is one sequence of one replica
   INCLUDING tombstones; [yata_insert] is the transcription of Item::resolve_conflict + relinking. *)
From Coq Require Import List NArith Bool Permutation.
From YV Require Import Lib.Bytes Codec.UpdateV1 Crdt.Doc Crdt.YataProofs Crdt.Blocks Crdt.BlocksProofs.
Import ListNotations.

(* integration only inserts: nothing is moved, dropped or duplicated *)
Theorem C04_inserted_exactly_once : forall l x,
  (exists l1 l2, l = l1 ++ l2 /\ yata_insert l x = l1 ++ x :: l2) /\ Permutation (x :: l) (yata_insert l x).
Proof. intros l x; split; [apply yata_insert_inserts_once | apply yata_insert_perm]. Qed.

(* any two elements keep their relative order, in every later state of the replica *)
Theorem C04_relative_order_stable : forall l x a b l1 l2 l3,
  l = l1 ++ a :: l2 ++ b :: l3 -> exists m1 m2 m3, yata_insert l x = m1 ++ a :: m2 ++ b :: m3.
Proof. exact yata_insert_order_stable. Qed.

(* an element inserted between two neighbours lies between them *)
Theorem C04_placed_between_origins : forall l x o r pre yo mid yr post,
  oorigin (d_op x) = Some o -> ororigin (d_op x) = Some r -> NoDup (map did l) ->
  l = pre ++ yo :: mid ++ yr :: post -> did yo = o -> did yr = r ->
  exists m1 m2, mid = m1 ++ m2 /\ yata_insert l x = pre ++ yo :: m1 ++ x :: m2 ++ yr :: post.
Proof. exact yata_insert_between_origins. Qed.

Theorem C04_placed_right_of_origin : forall l x o pre yo post,
  oorigin (d_op x) = Some o -> NoDup (map did l) -> l = pre ++ yo :: post -> did yo = o ->
  exists m1 m2, post = m1 ++ m2 /\ yata_insert l x = pre ++ yo :: m1 ++ x :: m2.
Proof. exact yata_insert_right_of_origin. Qed.

Theorem C04_placed_left_of_right_origin : forall l x r mid yr post,
  oorigin (d_op x) = None -> ororigin (d_op x) = Some r -> l = mid ++ yr :: post -> did yr = r ->
  exists m1 m2, mid = m1 ++ m2 /\ yata_insert l x = m1 ++ x :: m2 ++ yr :: post.
Proof. exact yata_insert_left_of_rorigin. Qed.

(* once deleted, never visible again: through any further delivery of updates and delete sets *)
Theorem C04_deleted_never_visible_again : forall d waiting s,
  del_le d (fst (deliver d waiting)) /\ del_le d (apply_ds d s).
Proof. intros; split; [apply deliver_del_le | apply apply_ds_del_le]. Qed.

(* non-vacuity: a concrete concurrent insertion between two existing units *)
Example C04_between_example :
  let mk c k o r := mkditem (mkop (mkid c k) o r (PNamed []) None (UString 97)) false in
  let l := [mk 1 0 None None; mk 1 1 (Some (mkid 1 0)) None]%N in
  map did (yata_insert l (mk 2 0 (Some (mkid 1 0)) (Some (mkid 1 1)))%N) = [mkid 1 0; mkid 2 0; mkid 1 1]%N.
Proof. reflexivity. Qed.

(* ---- block layer (Crdt/Blocks.v: ItemPtr::splice, ItemPtr::try_squash, BlockRange slice / merge) ----
   Blocks are a compression of units: splitting and squashing never change any unit (id, origin, right origin,
   parent, content), and every condition try_squash tests is NEEDED for that.  Tie to the code: the unit-level
   view of every replica's full state is compared with the unit-level view of the updates as first emitted
   (harness hist.rs, runner command `DEC unitcmp`). *)
Theorem C04_split_changes_no_unit : forall b k l r, blk_wf b = true ->
  blk_split b k = Some (l, r) -> units_of_block b = units_of_block l ++ units_of_block r.
Proof. exact blk_split_units. Qed.

Theorem C04_squash_changes_no_unit : forall a b, blk_wf a = true -> blk_wf b = true -> blk_nonempty a = true ->
  blk_can_squash a b = true -> units_of_block (blk_squash a b) = units_of_block a ++ units_of_block b.
Proof. exact blk_squash_units. Qed.

Theorem C04_split_then_squash_is_identity : forall b k l r,
  blk_split b k = Some (l, r) -> blk_can_squash l r = true /\ blk_squash l r = b.
Proof. exact blk_split_squash. Qed.

(* a block standing for the units of a followed by the units of b exists ONLY under the conditions try_squash tests *)
Theorem C04_squash_conditions_are_necessary :
  forall ia oa roa pa psa ca ib ob rob pb psb cb x,
    content_units ca <> [] -> content_units cb <> [] ->
    units_of_block x =
      units_of_block (BItem ia oa roa pa psa ca) ++ units_of_block (BItem ib ob rob pb psb cb) ->
    let n := N.of_nat (length (content_units ca)) in
    cl ia = cl ib /\ ck ia + n = ck ib /\ ob = Some (mkid (cl ia) (ck ia + n - 1)) /\
    roa = rob /\ pa = pb /\ psa = psb /\
    exists cx, x = BItem ia oa roa pa psa cx /\ content_units cx = content_units ca ++ content_units cb.
Proof. exact blk_squash_conditions_necessary. Qed.

(* non-vacuity and the witness for the right-origin condition: merging two runs that differ only in their right
   origin loses the right origin of the second run *)
Example C04_squash_without_equal_right_origins_changes_units :
  blk_can_squash blk_ex_ro_a blk_ex_ro_b = false /\
  units_of_block (blk_squash blk_ex_ro_a blk_ex_ro_b) <> units_of_block blk_ex_ro_a ++ units_of_block blk_ex_ro_b.
Proof. split; [exact blk_ex_ro_rejected | apply blk_ex_ro_lost]. Qed.
