(* C16: id sets / id maps implement exact set algebra.  Statements only; proofs are in Ids/. *)
From Coq Require Import List NArith Bool.
From YV Require Import Ids.Ranges Ids.RangesFinite.
Import ListNotations.
Open Scope N_scope.

(* Bounded universe (the property's own quantifier): U = 8 clocks, every subset, every pair. *)
Theorem C16_binary_ops_exact : forall x y : list bool, length x = U -> length y = U ->
      merge ueq umerge (of_bits x) (of_bits y) = of_bits (map2 orb x y)
   /\ exclude (of_bits x) (of_bits y) = of_bits (map2 (fun a b => a && negb b) x y)
   /\ intersect ueq umerge (of_bits x) (of_bits y) = of_bits (map2 andb x y)
   /\ subset_of (of_bits x) (of_bits y) = forallb (fun p => implb (fst p) (snd p)) (combine x y).
Proof. exact binary_facts. Qed.

Theorem C16_insert_remove_exact : forall (x : list bool) (s e : N), length x = U -> s < e -> e <= N.of_nat U ->
      insert_with ueq umerge (of_bits x) s e tt = Some (of_bits (set_range x 0 s e true))
   /\ remove (of_bits x) s e = Some (of_bits (set_range x 0 s e false)).
Proof. exact unary_facts. Qed.

Theorem C16_contains_exact : forall (x : list bool) (k : nat), length x = U -> (k <= U)%nat ->
  contains_clock (of_bits x) (N.of_nat k) = Some (nth k x false).
Proof. exact contains_facts. Qed.

(* Construction sequences of ANY length (not only "up to k") stay exact and canonical. *)
Theorem C16_construction_any_length : forall steps, Forall cstep_ok steps ->
  fold_left model_step steps (Some []) = Some (of_bits (fold_left spec_step steps (repeat false U))).
Proof. exact construction_any_length. Qed.

(* non-vacuity: a concrete non-trivial member of the universe and its canonical form *)
Example C16_universe_inhabited :
  of_bits [true; true; false; true; false; false; true; true] = [(0, 2, tt); (3, 4, tt); (6, 8, tt)].
Proof. reflexivity. Qed.
