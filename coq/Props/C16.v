(* C16: id sets / id maps implement exact set algebra.  Statements only; proofs are in Ids/. *)
From Coq Require Import List NArith Bool.
From YV Require Import Ids.Ranges Ids.RangesFinite.
Import ListNotations.
Open Scope N_scope.

(* Bounded universe (the property's own quantifier): U = 8 clocks, every subset, every pair. *)
Theorem C16_binary_ops_exact : forall x y : list bool, length x = U -> length y = U ->
      merge ueq umerge (of_bits x) (of_bits y) = of_bits (map2 orb x y)
   /\ exclude (of_bits x) (of_bits y) = of_bits (map2 (fun a b => a && negb b) x y)
   /\ intersect ueq umerge (of_bits x) (of_bits y) = of_bits (map2 andb x y)
   /\ subset_of (of_bits x) (of_bits y) = forallb (fun p => implb (fst p) (snd p)) (combine x y).
Proof. exact binary_facts. Qed.

Theorem C16_insert_remove_exact : forall (x : list bool) (s e : N), length x = U -> s < e -> e <= N.of_nat U ->
      insert_with ueq umerge (of_bits x) s e tt = Some (of_bits (set_range x 0 s e true))
   /\ remove (of_bits x) s e = Some (of_bits (set_range x 0 s e false)).
Proof. exact unary_facts. Qed.

Theorem C16_contains_exact : forall (x : list bool) (k : nat), length x = U -> (k <= U)%nat ->
  contains_clock (of_bits x) (N.of_nat k) = Some (nth k x false).
Proof. exact contains_facts. Qed.

(* Construction sequences of ANY length (not only "up to k") stay exact and canonical. *)
Theorem C16_construction_any_length : forall steps, Forall cstep_ok steps ->
  fold_left model_step steps (Some []) = Some (of_bits (fold_left spec_step steps (repeat false U))).
Proof. exact construction_any_length. Qed.

(* non-vacuity: a concrete non-trivial member of the universe and its canonical form *)
Example C16_universe_inhabited :
  of_bits [true; true; false; true; false; false; true; true] = [(0, 2, tt); (3, 4, tt); (6, 8, tt)].
Proof. reflexivity. Qed.

(* ---- appended: unbounded statements (proofs in Ids/RangesProofs.v) and the delete set computed from a document ---- *)
From Coq Require Import ZArith Lia Permutation.
From YV Require Import Lib.Bytes Codec.UpdateV1 Ids.RangesProofs Crdt.Doc Crdt.Blocks Crdt.Merge Crdt.Diff Crdt.ApplyDelete Crdt.WriteBlocks Crdt.MergeProofs Crdt.DiffProofs Crdt.WriteBlocksProofs.
(* UNBOUNDED (any canonical range list, any clock): contains = membership in the denoted set   [Ids/RangesProofs.v: contains_clock_spec] *)
Theorem C16_UNBOUNDED_contains : forall l k, canon l -> contains_clock l k = Some (den l k).
Proof. exact YV.Ids.RangesProofs.contains_clock_spec. Qed.

(* insert: canonical result denoting the union with [s, e)   [Ids/RangesProofs.v: insert_with_spec] *)
Theorem C16_UNBOUNDED_insert : forall l s e, canon l -> s < e ->
  exists l', insert_with ueq umerge l s e tt = Some l' /\ canon l' /\
  forall k, den l' k = den l k || ((s <=? k) && (k <? e)).
Proof. exact YV.Ids.RangesProofs.insert_with_spec. Qed.

(* remove_range: canonical result denoting the difference   [Ids/RangesProofs.v: remove_spec] *)
Theorem C16_UNBOUNDED_remove : forall l s e, canon l ->
  exists l', remove l s e = Some l' /\ canon l' /\ forall k, den l' k = den l k && negb ((s <=? k) && (k <? e)).
Proof. exact YV.Ids.RangesProofs.remove_spec. Qed.

(* merge: canonical result denoting the union   [Ids/RangesProofs.v: merge_spec] *)
Theorem C16_UNBOUNDED_merge : forall a b, canon a -> canon b ->
  canon (merge ueq umerge a b) /\
  forall k, den (merge ueq umerge a b) k = den a k || den b k.
Proof. exact YV.Ids.RangesProofs.merge_spec. Qed.

(* diff: canonical result denoting the difference   [Ids/RangesProofs.v: exclude_spec] *)
Theorem C16_UNBOUNDED_exclude : forall a b, canon a -> canon b ->
  canon (exclude a b) /\ forall k, den (exclude a b) k = den a k && negb (den b k).
Proof. exact YV.Ids.RangesProofs.exclude_spec. Qed.

(* intersect: canonical result denoting the intersection   [Ids/RangesProofs.v: intersect_spec] *)
Theorem C16_UNBOUNDED_intersect : forall a b, canon a -> canon b ->
  canon (intersect ueq umerge a b) /\
  forall k, den (intersect ueq umerge a b) k = den a k && den b k.
Proof. exact YV.Ids.RangesProofs.intersect_spec. Qed.

(* subset test = inclusion of the denoted sets   [Ids/RangesProofs.v: subset_of_spec] *)
Theorem C16_UNBOUNDED_subset : forall a b, canon a -> canon b ->
  (subset_of a b = true <-> forall k, den a k = true -> den b k = true).
Proof. exact YV.Ids.RangesProofs.subset_of_spec. Qed.

(* equal sets have equal canonical forms, so they compare and encode equal   [Ids/RangesProofs.v: canon_den_unique] *)
Theorem C16_UNBOUNDED_canonical_forms_are_unique : forall a b, canon a -> canon b ->
  (forall k, den a k = den b k) -> a = b.
Proof. exact YV.Ids.RangesProofs.canon_den_unique. Qed.

(* transcription of DeleteSet::from_store over block lists: canonical, no empty client entry, contains exactly the ids of deleted items and collected ranges   [Crdt/WriteBlocksProofs.v: wbf_delete_set_exact] *)
Theorem C16_delete_set_of_a_document_is_exact : forall st, wbf_wf st = true ->
  mrg_ds_ok (wbf_delete_set st) /\ wbf_ds_nonempty (wbf_delete_set st) /\
  (forall c k, mrg_ds_mem (wbf_delete_set st) c k = true <-> In (mkid c k) (wbf_deleted_ids st)) /\
  (forall c k, im_contains (wbf_delete_set st) c k = Some (mrg_ds_mem (wbf_delete_set st) c k)).
Proof. exact YV.Crdt.WriteBlocksProofs.wbf_delete_set_exact. Qed.
