(* C16, unbounded part: the transcribed IdRanges operations implement exact set algebra on
   canonical range lists, for arbitrary clocks and arbitrary list lengths.
   Unit-valued instance (plain sets): [idrange], [ueq], [umerge]. *)
From Coq Require Import List NArith ZArith Bool Lia ZifyBool ZifyN ZifyNat Sorted.
From YV Require Import Ids.Ranges.
Import ListNotations.
Open Scope N_scope.

Arguments N.add : simpl never.
Arguments N.sub : simpl never.
Arguments N.mul : simpl never.
Arguments N.eqb : simpl never.
Arguments N.ltb : simpl never.
Arguments N.leb : simpl never.
Arguments N.max : simpl never.
Arguments N.min : simpl never.

(* ---------- denotation ---------- *)
Definition inr (s e k : N) : bool := (s <=? k) && (k <? e).

Definition den {T} (l : ranges T) (k : N) : bool :=
  existsb (fun e => (e_start e <=? k) && (k <? e_end e)) l.

Lemma den_nil {T} k : den (@nil (entry T)) k = false.
Proof. reflexivity. Qed.

Lemma den_cons {T} (x : entry T) r k :
  den (x :: r) k = ((e_start x <=? k) && (k <? e_end x)) || den r k.
Proof. reflexivity. Qed.

Lemma den_cons3 {T} s e (v : T) r k :
  den ((s, e, v) :: r) k = ((s <=? k) && (k <? e)) || den r k.
Proof. reflexivity. Qed.

Lemma den_app {T} (a b : ranges T) k : den (a ++ b) k = den a k || den b k.
Proof. unfold den. apply existsb_app. Qed.

Lemma den_rev {T} (a : ranges T) k : den (rev a) k = den a k.
Proof.
  induction a as [|x a IH]; [reflexivity|].
  cbn [rev]. rewrite den_app, IH, !den_cons, den_nil. lia.
Qed.

Lemma den_true_in {T} (l : ranges T) k :
  den l k = true <-> exists x, In x l /\ e_start x <= k /\ k < e_end x.
Proof.
  unfold den. rewrite existsb_exists. split; intros [x [H1 H2]]; exists x; (split; [exact H1|lia]).
Qed.

(* ---------- canonical form ---------- *)
(* head start strictly above / weakly above a bound *)
Definition lb_ok (b : N) (l : idrange) : Prop :=
  match l with [] => True | y :: _ => b < e_start y end.
Definition lbw (b : N) (l : idrange) : Prop :=
  match l with [] => True | y :: _ => b <= e_start y end.

Fixpoint canon (l : idrange) : Prop :=
  match l with
  | [] => True
  | x :: r => e_start x < e_end x /\ lb_ok (e_end x) r /\ canon r
  end.

Definition lb_okb (b : N) (l : idrange) : bool :=
  match l with [] => true | y :: _ => b <? e_start y end.
Fixpoint canonb (l : idrange) : bool :=
  match l with
  | [] => true
  | x :: r => (e_start x <? e_end x) && lb_okb (e_end x) r && canonb r
  end.

Lemma canonb_spec l : canonb l = true <-> canon l.
Proof.
  induction l as [|x r IH]; cbn [canonb canon]; [tauto|].
  rewrite !andb_true_iff, IH. destruct r as [|y r']; cbn [lb_okb lb_ok]; intuition lia.
Qed.

Lemma canon_cons3 s e r : canon ((s, e, tt) :: r) <-> s < e /\ lb_ok e r /\ canon r.
Proof. reflexivity. Qed.

Lemma canon_tail x r : canon (x :: r) -> canon r.
Proof. cbn [canon]. tauto. Qed.

Lemma lb_ok_w b l : lb_ok b l -> lbw b l.
Proof. destruct l; cbn; [tauto|lia]. Qed.
Lemma lb_ok_mono b b' l : lb_ok b l -> b' <= b -> lb_ok b' l.
Proof. destruct l; cbn; [tauto|lia]. Qed.
Lemma lbw_mono b b' l : lbw b l -> b' <= b -> lbw b' l.
Proof. destruct l; cbn; [tauto|lia]. Qed.
Lemma lbw_ok b b' l : lbw b l -> b' < b -> lb_ok b' l.
Proof. destruct l; cbn; [tauto|lia]. Qed.

(* members of a canonical list lie above the head's lower bound *)
Lemma den_ge l : forall b k, canon l -> lbw b l -> den l k = true -> b <= k.
Proof.
  induction l as [|[[s e] []] r IH]; intros b k Hc Hb Hd; [discriminate|].
  rewrite den_cons3 in Hd. cbn [canon e_start e_end fst snd] in Hc. destruct Hc as [Hse [Hlb Hc]].
  cbn [lbw e_start fst] in Hb.
  destruct ((s <=? k) && (k <? e)) eqn:E; [lia|].
  cbn [orb] in Hd. specialize (IH e k Hc (lb_ok_w _ _ Hlb) Hd). lia.
Qed.

Lemma den_gt l b k : canon l -> lb_ok b l -> den l k = true -> b < k.
Proof.
  intros Hc Hb Hd. destruct l as [|[[s e] []] r]; [discriminate|].
  cbn [lb_ok e_start fst] in Hb.
  assert (s <= k) by (apply (den_ge _ s k Hc); [cbn; lia|exact Hd]). lia.
Qed.

Lemma den_below l b k : canon l -> lbw b l -> k < b -> den l k = false.
Proof.
  intros Hc Hb Hk. destruct (den l k) eqn:E; [|reflexivity].
  pose proof (den_ge l b k Hc Hb E). lia.
Qed.

Lemma den_below' l b k : canon l -> lb_ok b l -> k <= b -> den l k = false.
Proof.
  intros Hc Hb Hk. destruct (den l k) eqn:E; [|reflexivity].
  pose proof (den_gt l b k Hc Hb E). lia.
Qed.

(* ---------- uniqueness of the canonical representation ---------- *)
Theorem canon_den_unique : forall a b, canon a -> canon b ->
  (forall k, den a k = den b k) -> a = b.
Proof.
  induction a as [|[[s e] []] a IH]; intros [|[[s' e'] []] b] Ha Hb H.
  - reflexivity.
  - cbn [canon e_start e_end fst snd] in Hb. specialize (H s'). rewrite den_cons3, den_nil in H. lia.
  - cbn [canon e_start e_end fst snd] in Ha. specialize (H s). rewrite den_cons3, den_nil in H. lia.
  - pose proof Ha as Ha0. pose proof Hb as Hb0.
    cbn [canon e_start e_end fst snd] in Ha. destruct Ha as [Hse [Hlb Hca]].
    cbn [canon e_start e_end fst snd] in Hb. destruct Hb as [Hse' [Hlb' Hcb]].
    assert (Es : s = s').
    { pose proof (H s) as H1. pose proof (H s') as H2. rewrite !den_cons3 in H1, H2.
      assert (den ((s', e', tt) :: b) s = true) as D1 by (rewrite den_cons3; lia).
      assert (den ((s, e, tt) :: a) s' = true) as D2 by (rewrite den_cons3; lia).
      apply (den_ge _ s') in D1; [|exact Hb0|cbn; lia].
      apply (den_ge _ s) in D2; [|exact Ha0|cbn; lia]. lia. }
    subst s'.
    assert (Ee : e = e').
    { pose proof (H e) as H1. pose proof (H e') as H2. rewrite !den_cons3 in H1, H2.
      pose proof (den_below' a e e Hca Hlb) as A1.
      pose proof (den_below' b e' e' Hcb Hlb') as B1.
      destruct (N.lt_trichotomy e e') as [L|[L|L]]; [|exact L|].
      - rewrite A1 in H1 by lia.
        pose proof (den_below' b e' e Hcb Hlb') as B2. rewrite B2 in H1 by lia. lia.
      - rewrite B1 in H2 by lia.
        pose proof (den_below' a e e' Hca Hlb) as A2. rewrite A2 in H2 by lia. lia. }
    subst e'. f_equal. apply IH; [exact Hca|exact Hcb|].
    intros k. specialize (H k). rewrite !den_cons3 in H.
    destruct (k <=? e) eqn:Ek.
    + rewrite (den_below' a e k Hca Hlb), (den_below' b e k Hcb Hlb') by lia. reflexivity.
    + lia.
Qed.
Print Assumptions canon_den_unique.

(* ---------- 1. contains_clock ---------- *)
Theorem contains_clock_spec : forall l k, canon l -> contains_clock l k = Some (den l k).
Proof.
  induction l as [|[[s e] []] r IH]; intros k Hc; [reflexivity|].
  cbn [canon e_start e_end fst snd] in Hc. destruct Hc as [Hse [Hlb Hc]].
  specialize (IH k Hc). unfold contains_clock in *.
  cbn [partition_point e_start fst]. rewrite den_cons3.
  destruct (s <=? k) eqn:Es.
  - destruct (partition_point (fun e0 : entry unit => e_start e0 <=? k) r) as [|i] eqn:Ep.
    + cbn [nth_error e_end fst snd]. injection IH as IH. rewrite <- IH. f_equal; lia.
    + cbn [nth_error]. rewrite IH. f_equal.
      destruct r as [|[[s2 e2] []] r']; [discriminate|].
      cbn [partition_point e_start fst] in Ep. cbn [lb_ok e_start fst] in Hlb.
      destruct (s2 <=? k) eqn:E2; [|discriminate]. lia.
  - rewrite (den_below' r e k Hc Hlb) by lia. f_equal; lia.
Qed.
Print Assumptions contains_clock_spec.

(* ---------- 2. subset_of ---------- *)
Lemma covered_loop_spec : forall o cur e, canon o -> cur < e ->
  (covered_loop cur e o = true <-> forall k, cur <= k -> k < e -> den o k = true).
Proof.
  induction o as [|[[os oe] []] o IH]; intros cur e Hc Hlt.
  - cbn [covered_loop]. split; [lia|]. intros H. specialize (H cur). rewrite den_nil in H. lia.
  - cbn [canon e_start e_end fst snd] in Hc. destruct Hc as [Hse [Hlb Hc]]. cbn [covered_loop].
    destruct (oe <=? cur) eqn:E1.
    { rewrite (IH cur e Hc Hlt). split; intros H k K1 K2; specialize (H k K1 K2).
      - rewrite den_cons3, H. lia.
      - rewrite den_cons3 in H. lia. }
    destruct (cur <? os) eqn:E2.
    { split; [discriminate|]. intros H. specialize (H cur). rewrite den_cons3 in H.
      rewrite (den_below' o oe cur Hc Hlb) in H by lia. lia. }
    destruct (e <=? oe) eqn:E3.
    { split; [|reflexivity]. intros _ k K1 K2. rewrite den_cons3. lia. }
    assert (oe < e) as Hlt' by lia. rewrite (IH oe e Hc Hlt').
    split; intros H k K1 K2.
    + rewrite den_cons3. destruct (k <? oe) eqn:E4; [lia|]. rewrite H by lia. lia.
    + specialize (H k). rewrite den_cons3 in H. lia.
Qed.

Lemma is_range_covered_spec o s e : canon o ->
  (is_range_covered s e o = true <-> forall k, s <= k -> k < e -> den o k = true).
Proof.
  intros Hc. unfold is_range_covered. destruct (e <=? s) eqn:E.
  - split; [|reflexivity]. intros _ k K1 K2. lia.
  - apply covered_loop_spec; [exact Hc|lia].
Qed.

Theorem subset_of_spec : forall a b, canon a -> canon b ->
  (subset_of a b = true <-> forall k, den a k = true -> den b k = true).
Proof.
  intros a b _ Hb. unfold subset_of. rewrite forallb_forall. split.
  - intros H k Hk. apply den_true_in in Hk. destruct Hk as [x [Hin [K1 K2]]].
    specialize (H x Hin). rewrite (is_range_covered_spec b _ _ Hb) in H. apply H; assumption.
  - intros H x Hin. apply (is_range_covered_spec b _ _ Hb). intros k K1 K2.
    apply H. apply den_true_in. exists x. auto.
Qed.
Print Assumptions subset_of_spec.

(* ---------- reversed accumulators ---------- *)
Definition hb (acc : idrange) (b : N) : Prop :=
  match acc with [] => True | y :: _ => e_end y < b end.
Definition hble (acc : idrange) (b : N) : Prop :=
  match acc with [] => True | y :: _ => e_end y <= b end.
Fixpoint rcanon (acc : idrange) : Prop :=
  match acc with
  | [] => True
  | x :: r => e_start x < e_end x /\ hb r (e_start x) /\ rcanon r
  end.
Definition sep (acc l : idrange) : Prop :=
  match l with [] => True | x :: _ => hb acc (e_start x) end.

Lemma hb_mono acc b b' : hb acc b -> b <= b' -> hb acc b'.
Proof. destruct acc; cbn; [tauto|lia]. Qed.
Lemma hble_mono acc b b' : hble acc b -> b <= b' -> hble acc b'.
Proof. destruct acc; cbn; [tauto|lia]. Qed.
Lemma hb_le acc b : hb acc b -> hble acc b.
Proof. destruct acc; cbn; [tauto|lia]. Qed.
Lemma hble_lt acc b b' : hble acc b -> b < b' -> hb acc b'.
Proof. destruct acc; cbn; [tauto|lia]. Qed.

Lemma canon_rev_app : forall acc l, rcanon acc -> canon l -> sep acc l -> canon (rev acc ++ l).
Proof.
  induction acc as [|x acc IH]; intros l Hr Hc Hs; [exact Hc|].
  cbn [rev]. rewrite <- app_assoc. cbn [app]. cbn [rcanon] in Hr. destruct Hr as [H1 [H2 H3]].
  apply IH; [exact H3| |exact H2].
  cbn [canon]. split; [exact H1|]. split; [|exact Hc].
  destruct l as [|y l]; [exact I|]. exact Hs.
Qed.

Lemma canon_rev acc : rcanon acc -> canon (rev acc).
Proof. intros H. rewrite <- (app_nil_r (rev acc)). apply canon_rev_app; [exact H|exact I|exact I]. Qed.

Lemma rcanon_rev_app : forall l acc, canon l -> rcanon acc -> sep acc l -> rcanon (rev l ++ acc).
Proof.
  induction l as [|x l IH]; intros acc Hc Hr Hs; [exact Hr|].
  cbn [rev]. rewrite <- app_assoc. cbn [app]. cbn [canon] in Hc. destruct Hc as [H1 [H2 H3]].
  apply IH; [exact H3| |].
  - cbn [rcanon]. split; [exact H1|]. split; [exact Hs|exact Hr].
  - destruct l as [|y l]; [exact I|]. exact H2.
Qed.

Lemma rcanon_rev l : canon l -> rcanon (rev l).
Proof. intros H. rewrite <- (app_nil_r (rev l)). apply rcanon_rev_app; [exact H|exact I|]. destruct l; exact I. Qed.

(* members of a reversed canonical accumulator lie below its head end *)
Lemma rden_lt acc : forall b k, rcanon acc -> hble acc b -> den acc k = true -> k < b.
Proof.
  induction acc as [|[[s e] []] r IH]; intros b k Hc Hb Hd; [discriminate|].
  rewrite den_cons3 in Hd. cbn [rcanon e_start e_end fst snd] in Hc. destruct Hc as [Hse [Hlb Hc]].
  cbn [hble e_end fst snd] in Hb.
  destruct ((s <=? k) && (k <? e)) eqn:E; [lia|].
  cbn [orb] in Hd. specialize (IH s k Hc (hb_le _ _ Hlb) Hd). lia.
Qed.

Lemma rden_above acc b k : rcanon acc -> hble acc b -> b <= k -> den acc k = false.
Proof.
  intros Hc Hb Hk. destruct (den acc k) eqn:E; [|reflexivity].
  pose proof (rden_lt acc b k Hc Hb E). lia.
Qed.

(* ---------- drop_while on ends ---------- *)
Lemma drop_while_end_spec : forall (o : idrange) s, canon o ->
  canon (drop_while (fun y => e_end y <=? s) o) /\
  forall k, s <= k -> den (drop_while (fun y => e_end y <=? s) o) k = den o k.
Proof.
  induction o as [|[[os oe] []] o IH]; intros s Hc; [split; [exact I|reflexivity]|].
  cbn [drop_while e_end fst snd]. destruct (oe <=? s) eqn:E.
  - destruct (IH s (canon_tail _ _ Hc)) as [H1 H2]. split; [exact H1|].
    intros k Hk. rewrite (H2 k Hk), den_cons3. lia.
  - split; [exact Hc|reflexivity].
Qed.

(* ---------- 3. exclude ---------- *)
Lemma excl_inner_spec : forall (o : idrange) start e (acc : idrange) start' o2 acc',
  canon o -> rcanon acc -> hb acc start ->
  excl_inner start e tt o acc = (start', o2, acc') ->
  canon o2 /\ rcanon acc' /\ hb acc' start' /\ hb acc' (N.max start e) /\
  (forall k, e <= k -> den o2 k = den o k) /\
  (forall k, den acc' k || inr start' e k = den acc k || (inr start e k && negb (den o k))).
Proof.
  induction o as [|[[os oe] []] o IH]; intros start e acc start' o2 acc' Hc Hr Hb E.
  - cbn [excl_inner] in E. injection E as <- <- <-.
    repeat split; try assumption; try reflexivity.
    + apply (hb_mono _ _ _ Hb); lia.
    + intros k. rewrite den_nil. unfold inr. lia.
  - cbn [excl_inner] in E.
    pose proof Hc as Hc0. cbn [canon e_start e_end fst snd] in Hc. destruct Hc as [Hse [Hlb Hc]].
    destruct (negb (start <? e)) eqn:E1.
    { injection E as <- <- <-. repeat split; try assumption; try reflexivity.
      + apply (hb_mono _ _ _ Hb); lia.
      + intros k. unfold inr. lia. }
    destruct (e <=? os) eqn:E2.
    { injection E as <- <- <-. repeat split; try assumption; try reflexivity.
      + apply (hb_mono _ _ _ Hb); lia.
      + intros k. rewrite den_cons3. unfold inr.
        pose proof (den_gt o oe k Hc Hlb). destruct (den o k); lia. }
    set (acc1 := if start <? os then (start, os, tt) :: acc else acc) in E.
    assert (rcanon acc1 /\ hb acc1 (N.max start oe) /\ hb acc1 e /\
            forall k, den acc1 k = den acc k || (inr start os k)) as [R1 [R2 [R3 R4]]].
    { unfold acc1. destruct (start <? os) eqn:E3.
      - cbn [rcanon hb e_start e_end fst snd]. repeat split; try assumption; try lia.
        intros k. rewrite den_cons3. unfold inr. lia.
      - repeat split; try assumption.
        + apply (hb_mono _ _ _ Hb); lia.
        + apply (hb_mono _ _ _ Hb); lia.
        + intros k. unfold inr. lia. }
    destruct (oe <? e) eqn:E4.
    + destruct (IH _ _ _ _ _ _ Hc R1 R2 E) as [I1 [I2 [I3 [I4 [I5 I6]]]]].
      repeat split; try assumption.
      * apply (hb_mono _ _ _ I4); lia.
      * intros k Hk. rewrite (I5 k Hk), den_cons3. lia.
      * intros k. rewrite (I6 k), R4, den_cons3. unfold inr.
        pose proof (den_gt o oe k Hc Hlb). destruct (den o k); lia.
    + injection E as <- <- <-. repeat split; try assumption; try reflexivity.
      * apply (hb_mono _ _ _ R3); lia.
      * intros k. rewrite R4, den_cons3. unfold inr.
        pose proof (den_gt o oe k Hc Hlb). destruct (den o k); lia.
Qed.

Lemma excl_fold_spec : forall (a o acc : idrange), canon a -> canon o -> rcanon acc -> sep acc a ->
  rcanon (snd (fold_left excl_step a (o, acc))) /\
  forall k, den (snd (fold_left excl_step a (o, acc))) k = den acc k || (den a k && negb (den o k)).
Proof.
  induction a as [|[[s e] []] a IH]; intros o acc Ha Ho Hr Hs.
  - cbn [fold_left snd]. split; [exact Hr|]. intros k. rewrite den_nil. lia.
  - cbn [fold_left excl_step].
    cbn [canon e_start e_end fst snd] in Ha. destruct Ha as [Hse [Hlb Ha]].
    cbn [sep e_start fst] in Hs.
    destruct (drop_while_end_spec o s Ho) as [D1 D2].
    set (o1 := drop_while (fun y : entry unit => e_end y <=? s) o) in *.
    destruct (excl_inner s e tt o1 acc) as [[start' o2] acc'] eqn:E.
    destruct (excl_inner_spec _ _ _ _ _ _ _ D1 Hr Hs E) as [I1 [I2 [I3 [I4 [I5 I6]]]]].
    set (acc2 := if start' <? e then (start', e, tt) :: acc' else acc').
    assert (rcanon acc2 /\ hble acc2 e /\ forall k, den acc2 k = den acc' k || inr start' e k)
      as [R1 [R2 R3]].
    { unfold acc2. destruct (start' <? e) eqn:E3.
      - cbn [rcanon hble e_start e_end fst snd]. repeat split; try assumption; try lia.
        intros k. rewrite den_cons3. unfold inr. lia.
      - repeat split; try assumption.
        + apply hb_le. apply (hb_mono _ _ _ I4). lia.
        + intros k. unfold inr. lia. }
    assert (sep acc2 a) as Hs2.
    { destruct a as [|[[s2 e2] []] a']; [exact I|]. cbn [sep e_start fst].
      cbn [lb_ok e_start fst] in Hlb. apply (hble_lt _ _ _ R2 Hlb). }
    destruct (IH o2 acc2 Ha I1 R1 Hs2) as [J1 J2]. split; [exact J1|].
    intros k. etransitivity; [apply J2|]. rewrite R3, (I6 k), den_cons3. unfold inr.
    pose proof (den_gt a e k Ha Hlb) as G.
    destruct (N.le_gt_cases e k) as [L|L].
    + rewrite (I5 k L), (D2 k) by lia. destruct (den a k); lia.
    + destruct (den a k); [lia|]. destruct (N.le_gt_cases s k) as [L2|L2].
      * rewrite (D2 k L2). lia.
      * lia.
Qed.

Theorem exclude_spec : forall a b, canon a -> canon b ->
  canon (exclude a b) /\ forall k, den (exclude a b) k = den a k && negb (den b k).
Proof.
  intros a b Ha Hb. unfold exclude.
  destruct b as [|y b']; [split; [exact Ha|intros k; rewrite den_nil; lia]|].
  destruct a as [|x a']; [split; [exact I|reflexivity]|].
  destruct (excl_fold_spec (x :: a') (y :: b') [] Ha Hb I) as [H1 H2].
  { destruct x as [[s e] []]. exact I. }
  split; [apply canon_rev; exact H1|].
  intros k. rewrite den_rev, H2, den_nil. reflexivity.
Qed.
Print Assumptions exclude_spec.

(* ---------- 4. intersect ---------- *)
Lemma isect_push_spec acc lo hi : rcanon acc -> hble acc lo -> lo < hi ->
  rcanon (isect_push ueq acc lo hi tt) /\ hble (isect_push ueq acc lo hi tt) hi /\
  forall k, den (isect_push ueq acc lo hi tt) k = den acc k || inr lo hi k.
Proof.
  intros Hr Hb Hlt. destruct acc as [|[[ls le] []] acc]; cbn [isect_push].
  - cbn [rcanon hb hble e_start e_end fst snd]. repeat split; try lia.
    intros k. rewrite den_cons3, !den_nil. unfold inr. lia.
  - cbn [rcanon e_start e_end fst snd] in Hr. destruct Hr as [H1 [H2 H3]].
    cbn [hble e_end fst snd] in Hb. unfold ueq. rewrite andb_true_r.
    destruct (le =? lo) eqn:E.
    + cbn [rcanon hb hble e_start e_end fst snd]. repeat split; try assumption; try lia.
      intros k. rewrite !den_cons3. unfold inr. lia.
    + cbn [rcanon hb hble e_start e_end fst snd]. repeat split; try assumption; try lia.
      intros k. rewrite !den_cons3. unfold inr. lia.
Qed.

Lemma isect_inner_spec : forall (o : idrange) s e (acc : idrange) o2 acc',
  canon o -> rcanon acc -> hble acc e ->
  match o with [] => True | x :: _ => hble acc (N.max s (e_start x)) end ->
  isect_inner ueq umerge s e tt o acc = (o2, acc') ->
  canon o2 /\ rcanon acc' /\ hble acc' e /\
  (forall k, e <= k -> den o2 k = den o k) /\
  (forall k, den acc' k = den acc k || (inr s e k && den o k)).
Proof.
  induction o as [|[[os oe] []] o IH]; intros s e acc o2 acc' Hc Hr Hbe Hbo E.
  - cbn [isect_inner] in E. injection E as <- <-.
    repeat split; try assumption. intros k. rewrite den_nil. lia.
  - cbn [isect_inner] in E. cbn [e_start fst] in Hbo.
    pose proof Hc as Hc0. cbn [canon e_start e_end fst snd] in Hc. destruct Hc as [Hse [Hlb Hc]].
    destruct (e <=? os) eqn:E1.
    { injection E as <- <-. repeat split; try assumption.
      intros k. rewrite den_cons3. unfold inr.
      pose proof (den_gt o oe k Hc Hlb) as G. destruct (den o k); lia. }
    unfold umerge in E.
    set (acc1 := if N.max s os <? N.min e oe
                 then isect_push ueq acc (N.max s os) (N.min e oe) tt else acc) in E.
    assert (rcanon acc1 /\ hble acc1 e /\ hble acc1 (N.max (N.max s os) oe) /\
            forall k, den acc1 k = den acc k || inr (N.max s os) (N.min e oe) k)
      as [R1 [R2 [R3 R4]]].
    { unfold acc1. destruct (N.max s os <? N.min e oe) eqn:E3.
      - destruct (isect_push_spec acc (N.max s os) (N.min e oe) Hr Hbo) as [P1 [P2 P3]]; [lia|].
        repeat split; try assumption.
        + apply (hble_mono _ _ _ P2); lia.
        + apply (hble_mono _ _ _ P2); lia.
      - repeat split; try assumption.
        + apply (hble_mono _ _ _ Hbo); lia.
        + intros k. unfold inr. lia. }
    pose proof (den_gt o oe) as G.
    destruct (oe <? e) eqn:E4.
    + assert (match o with [] => True | x :: _ => hble acc1 (N.max s (e_start x)) end) as Hbo'.
      { destruct o as [|[[os2 oe2] []] o']; [exact I|]. cbn [e_start fst].
        cbn [lb_ok e_start fst] in Hlb. apply (hble_mono _ _ _ R3); lia. }
      destruct (IH _ _ _ _ _ Hc R1 R2 Hbo' E) as [I1 [I2 [I3 [I4 I5]]]].
      repeat split; try assumption.
      * intros k Hk. rewrite (I4 k Hk), den_cons3. lia.
      * intros k. rewrite (I5 k), R4, den_cons3. unfold inr. lia.
    + injection E as <- <-. repeat split; try assumption.
      intros k. rewrite R4, den_cons3. unfold inr.
      specialize (G k Hc Hlb). destruct (den o k); lia.
Qed.

Lemma isect_fold_spec : forall (a o acc : idrange), canon a -> canon o -> rcanon acc -> sep acc a ->
  rcanon (snd (fold_left (isect_step ueq umerge) a (o, acc))) /\
  forall k, den (snd (fold_left (isect_step ueq umerge) a (o, acc))) k
            = den acc k || (den a k && den o k).
Proof.
  induction a as [|[[s e] []] a IH]; intros o acc Ha Ho Hr Hs.
  - cbn [fold_left snd]. split; [exact Hr|]. intros k. rewrite den_nil. lia.
  - cbn [fold_left isect_step].
    cbn [canon e_start e_end fst snd] in Ha. destruct Ha as [Hse [Hlb Ha]].
    cbn [sep e_start fst] in Hs.
    destruct (drop_while_end_spec o s Ho) as [D1 D2].
    set (o1 := drop_while (fun y : entry unit => e_end y <=? s) o) in *.
    destruct (isect_inner ueq umerge s e tt o1 acc) as [o2 acc'] eqn:E.
    assert (hble acc e) as Hbe by (apply hb_le; apply (hb_mono _ _ _ Hs); lia).
    assert (match o1 with [] => True | x :: _ => hble acc (N.max s (e_start x)) end) as Hbo.
    { destruct o1; [exact I|]. apply hb_le; apply (hb_mono _ _ _ Hs); lia. }
    destruct (isect_inner_spec _ _ _ _ _ _ D1 Hr Hbe Hbo E) as [I1 [I2 [I3 [I4 I5]]]].
    assert (sep acc' a) as Hs2.
    { destruct a as [|[[s2 e2] []] a']; [exact I|]. cbn [sep e_start fst].
      cbn [lb_ok e_start fst] in Hlb. apply (hble_lt _ _ _ I3 Hlb). }
    destruct (IH o2 acc' Ha I1 I2 Hs2) as [J1 J2]. split; [exact J1|].
    intros k. etransitivity; [apply J2|]. rewrite (I5 k), den_cons3. unfold inr.
    pose proof (den_gt a e k Ha Hlb) as G.
    destruct (N.le_gt_cases e k) as [L|L].
    + rewrite (I4 k L), (D2 k) by lia. destruct (den a k); lia.
    + destruct (den a k); [lia|]. destruct (N.le_gt_cases s k) as [L2|L2].
      * rewrite (D2 k L2). lia.
      * lia.
Qed.

Theorem intersect_spec : forall a b, canon a -> canon b ->
  canon (intersect ueq umerge a b) /\
  forall k, den (intersect ueq umerge a b) k = den a k && den b k.
Proof.
  intros a b Ha Hb. unfold intersect.
  destruct a as [|x a']; [split; [exact I|reflexivity]|].
  destruct b as [|y b']; [split; [exact I|intros k; rewrite den_nil; lia]|].
  destruct (isect_fold_spec (x :: a') (y :: b') [] Ha Hb I) as [H1 H2].
  { destruct x as [[s e] []]. exact I. }
  split; [apply canon_rev; exact H1|].
  intros k. rewrite den_rev. etransitivity; [apply H2|]. rewrite den_nil. reflexivity.
Qed.
Print Assumptions intersect_spec.

(* ---------- list toolkit: partition_point / take_while / drop_while / splitting ---------- *)
Section Generic.
Context {T : Type}.
Implicit Types (p : entry T -> bool) (l : ranges T).

Lemma tw_dw p l : take_while p l ++ drop_while p l = l.
Proof. induction l as [|x l IH]; [reflexivity|]. cbn. destruct (p x); [cbn; now rewrite IH|reflexivity]. Qed.

Lemma tw_forall p l : Forall (fun x => p x = true) (take_while p l).
Proof.
  induction l as [|x l IH]; [constructor|]. cbn. destruct (p x) eqn:E; [|constructor].
  constructor; assumption.
Qed.

Lemma dw_head p l : match drop_while p l with [] => True | x :: _ => p x = false end.
Proof. induction l as [|x l IH]; [exact I|]. cbn. destruct (p x) eqn:E; [exact IH|exact E]. Qed.

Lemma pp_app p (pre rest : ranges T) : Forall (fun x => p x = true) pre ->
  match rest with [] => True | x :: _ => p x = false end ->
  partition_point p (pre ++ rest) = length pre.
Proof.
  intros Hf Hh. induction Hf as [|x pre Hx Hf IH].
  - destruct rest as [|y rest]; [reflexivity|]. cbn. now rewrite Hh.
  - cbn. now rewrite Hx, IH.
Qed.

Lemma firstn_len_app {A} (a b : list A) : firstn (length a) (a ++ b) = a.
Proof. induction a; cbn; [reflexivity|now f_equal]. Qed.
Lemma skipn_len_app {A} (a b : list A) : skipn (length a) (a ++ b) = b.
Proof. induction a; cbn; [reflexivity|assumption]. Qed.
Lemma nth_error_len_app {A} (a b : list A) : nth_error (a ++ b) (length a) = hd_error b.
Proof. induction a; cbn; [destruct b; reflexivity|assumption]. Qed.
Lemma skipn_S_len_app {A} (a : list A) x b : skipn (S (length a)) (a ++ x :: b) = b.
Proof. induction a; cbn; [reflexivity|assumption]. Qed.
End Generic.

(* ---------- splitting canonical lists ---------- *)
Lemma canon_rev_app_inv : forall acc l, canon (rev acc ++ l) -> rcanon acc /\ canon l /\ sep acc l.
Proof.
  induction acc as [|x acc IH]; intros l H; [repeat split; [exact H|destruct l; exact I]|].
  cbn [rev] in H. rewrite <- app_assoc in H. cbn [app] in H.
  destruct (IH _ H) as [H1 [H2 H3]]. cbn [canon] in H2. destruct H2 as [A1 [A2 A3]].
  cbn [sep] in H3. repeat split; try assumption.
  all: destruct l as [|y l]; [exact I|]; exact A2.
Qed.

Lemma canon_app_iff a q : canon (a ++ q) <-> rcanon (rev a) /\ canon q /\ sep (rev a) q.
Proof.
  split.
  - intros H. apply canon_rev_app_inv. now rewrite rev_involutive.
  - intros [H1 [H2 H3]]. rewrite <- (rev_involutive a). now apply canon_rev_app.
Qed.

Lemma hble_rev_forall (pre : idrange) s :
  Forall (fun x => (e_end x <=? s) = true) pre -> hble (rev pre) s.
Proof.
  intros H. destruct (rev pre) as [|x r] eqn:E; [exact I|]. cbn [hble].
  rewrite Forall_forall in H. assert (In x pre) as Hin by (apply in_rev; rewrite E; now left).
  specialize (H x Hin). lia.
Qed.

(* ---------- 5. remove ---------- *)
Definition trim (e : N) (q : idrange) : idrange :=
  match q with
  | (ys, ye, yv) :: q' => if ys <? e then (e, ye, yv) :: q' else q
  | [] => []
  end.

Lemma trim_spec e q : canon q -> match q with [] => True | x :: _ => e < e_end x end ->
  canon (trim e q) /\ lbw e (trim e q) /\ forall k, den (trim e q) k = den q k && (e <=? k).
Proof.
  intros Hc Hh. destruct q as [|[[ys ye] []] q]; [repeat split|].
  cbn [e_end fst snd] in Hh. cbn [canon e_start e_end fst snd] in Hc. destruct Hc as [H1 [H2 H3]].
  cbn [trim]. destruct (ys <? e) eqn:E.
  - cbn [canon lbw e_start e_end fst snd]. repeat split; try assumption; try lia.
    intros k. rewrite !den_cons3. pose proof (den_gt q ye k H3 H2). destruct (den q k); lia.
  - cbn [canon lbw e_start e_end fst snd]. repeat split; try assumption; try lia.
    intros k. rewrite !den_cons3. pose proof (den_gt q ye k H3 H2). destruct (den q k); lia.
Qed.

Lemma splice_trim (a c q : idrange) e :
  let l1 := a ++ c ++ q in
  let j := (length a + length c)%nat in
  let l2 := match nth_error l1 j with
            | Some (ys, ye, yv) =>
                if ys <? e then firstn j l1 ++ (e, ye, yv) :: skipn (S j) l1 else l1
            | None => l1
            end in
  firstn (length a) l2 ++ skipn j l2 = a ++ trim e q.
Proof.
  intros l1 j l2. subst l1 j l2. rewrite <- app_length, app_assoc.
  rewrite nth_error_len_app. destruct q as [|[[ys ye] yv] q]; cbn [hd_error trim].
  - rewrite skipn_len_app, <- app_assoc, firstn_len_app. reflexivity.
  - destruct (ys <? e) eqn:E.
    + rewrite firstn_len_app, skipn_S_len_app, skipn_len_app.
      rewrite <- app_assoc, firstn_len_app. reflexivity.
    + rewrite skipn_len_app, <- app_assoc, firstn_len_app. reflexivity.
Qed.

Definition pE (s : N) : entry unit -> bool := fun x => e_end x <=? s.

Definition remove_model (pre rest : idrange) (s e : N) : idrange :=
  match rest with
  | [] => pre
  | (xs, xe, v) :: post =>
      if (xs <? s) && (e <? xe) then pre ++ (xs, s, v) :: (e, xe, v) :: post
      else if xs <? s then (pre ++ [(xs, s, v)]) ++ trim e (drop_while (pE e) post)
      else pre ++ trim e (drop_while (pE e) rest)
  end.

Lemma remove_eq (pre rest : idrange) s e : s < e ->
  Forall (fun x => pE s x = true) pre ->
  match rest with [] => True | x :: _ => pE s x = false end ->
  remove (pre ++ rest) s e = Some (remove_model pre rest s e).
Proof.
  intros Hse Hf Hh.
  assert (forall l, remove l s e =
    let i := partition_point (pE s) l in
    match nth_error l i with
    | None => Some l
    | Some (xs, xe, xv) =>
      if (xs <? s) && (e <? xe) then
        Some (firstn i l ++ (xs, s, xv) :: (e, xe, xv) :: skipn (S i) l)
      else
        let '(l1, i1) := if xs <? s then (firstn i l ++ (xs, s, xv) :: skipn (S i) l, S i) else (l, i) in
        let covered := take_while (pE e) (skipn i1 l1) in
        let j := (i1 + length covered)%nat in
        let l2 := match nth_error l1 j with
                  | Some (ys, ye, yv) =>
                      if ys <? e then firstn j l1 ++ (e, ye, yv) :: skipn (S j) l1 else l1
                  | None => l1
                  end in
        Some (firstn i1 l2 ++ skipn j l2)
    end) as U.
  { intros l. unfold remove. replace (e <=? s) with false by lia. destruct l; reflexivity. }
  rewrite U. clear U. cbv zeta. rewrite (pp_app _ _ _ Hf Hh), nth_error_len_app.
  unfold remove_model. destruct rest as [|[[xs xe] xv] post]; cbn [hd_error].
  - now rewrite app_nil_r.
  - destruct ((xs <? s) && (e <? xe)) eqn:E1.
    + rewrite firstn_len_app, skipn_S_len_app. reflexivity.
    + destruct (xs <? s) eqn:E2.
      * rewrite firstn_len_app, skipn_S_len_app.
        replace (pre ++ (xs, s, xv) :: post) with ((pre ++ [(xs, s, xv)]) ++ post)
          by (now rewrite <- app_assoc).
        replace (S (length pre)) with (length (pre ++ [(xs, s, xv)]))
          by (rewrite app_length; cbn; lia).
        rewrite skipn_len_app.
        set (cov := take_while (pE e) post).
        pose proof (tw_dw (pE e) post) as Hsplit. fold cov in Hsplit.
        set (q := drop_while (pE e) post) in *. clearbody cov q. subst post.
        f_equal. apply splice_trim.
      * rewrite skipn_len_app.
        match goal with |- context [take_while (pE e) ?r] => remember r as rest eqn:Hr; clear Hr end.
        set (cov := take_while (pE e) rest).
        pose proof (tw_dw (pE e) rest) as Hsplit. fold cov in Hsplit.
        set (q := drop_while (pE e) rest) in *. clearbody cov q. subst rest.
        f_equal. apply splice_trim.
Qed.

Lemma den_forall_lt (c : idrange) e k :
  Forall (fun x => pE e x = true) c -> den c k = true -> k < e.
Proof.
  intros Hf Hd. apply den_true_in in Hd. destruct Hd as [x [Hin [K1 K2]]].
  rewrite Forall_forall in Hf. specialize (Hf x Hin). unfold pE in Hf. lia.
Qed.

Lemma sep_from acc s e q : hble acc s -> s < e -> lbw e q -> sep acc q.
Proof. destruct acc as [|y acc], q as [|x q]; cbn; try tauto. lia. Qed.

Lemma dw_canon (e : N) (l : idrange) : canon l ->
  canon (drop_while (pE e) l) /\
  match drop_while (pE e) l with [] => True | x :: _ => e < e_end x end /\
  (forall k, den l k = den (take_while (pE e) l) k || den (drop_while (pE e) l) k) /\
  (forall k, den (take_while (pE e) l) k = true -> k < e).
Proof.
  intros Hc. pose proof (tw_dw (pE e) l) as Hs. pose proof (dw_head (pE e) l) as Hh.
  pose proof (tw_forall (pE e) l) as Hf.
  repeat split.
  - rewrite <- Hs in Hc. apply canon_app_iff in Hc. tauto.
  - destruct (drop_while (pE e) l) as [|x q]; [exact I|]. unfold pE in Hh. lia.
  - intros k. rewrite <- den_app, Hs. reflexivity.
  - intros k. apply den_forall_lt. exact Hf.
Qed.

Theorem remove_spec : forall l s e, canon l ->
  exists l', remove l s e = Some l' /\ canon l' /\ forall k, den l' k = den l k && negb ((s <=? k) && (k <? e)).
Proof.
  intros l s e Hc. destruct (e <=? s) eqn:E0.
  { exists l. unfold remove. rewrite E0. split; [reflexivity|]. split; [exact Hc|]. intros k. lia. }
  pose proof (tw_forall (pE s) l) as Hf. pose proof (dw_head (pE s) l) as Hh.
  rewrite <- (tw_dw (pE s) l) in Hc |- *.
  set (pre := take_while (pE s) l) in *. set (rest := drop_while (pE s) l) in *.
  clearbody pre rest. clear l.
  exists (remove_model pre rest s e). split; [apply remove_eq; [lia|exact Hf|exact Hh]|].
  apply canon_app_iff in Hc. destruct Hc as [Hp [Hr Hs]].
  pose proof (hble_rev_forall pre s Hf) as Hb.
  assert (forall k, den pre k = true -> k < s) as F1.
  { intros k Hk. rewrite <- den_rev in Hk. exact (rden_lt _ _ _ Hp Hb Hk). }
  destruct rest as [|[[xs xe] []] post]; cbn [remove_model].
  { split; [rewrite <- (app_nil_r pre); apply canon_app_iff; repeat split; assumption|].
    intros k. rewrite !den_app, den_nil. specialize (F1 k). destruct (den pre k); lia. }
  unfold pE in Hh. cbn [e_end fst snd] in Hh.
  pose proof Hr as Hr0.
  cbn [canon e_start e_end fst snd] in Hr. destruct Hr as [R1 [R2 R3]].
  cbn [sep e_start fst] in Hs.
  destruct ((xs <? s) && (e <? xe)) eqn:E1.
  { split.
    - apply canon_app_iff. split; [exact Hp|]. split; [|exact Hs].
      cbn [canon lb_ok e_start e_end fst snd]. repeat split; try assumption; lia.
    - intros k. rewrite !den_app, !den_cons3. specialize (F1 k).
      pose proof (den_gt post xe k R3 R2) as G.
      destruct (den pre k); destruct (den post k); lia. }
  destruct (xs <? s) eqn:E2.
  - destruct (dw_canon e post R3) as [D1 [D2 [D3 D4]]].
    destruct (trim_spec e _ D1 D2) as [T1 [T2 T3]].
    split.
    + apply canon_app_iff. rewrite rev_app_distr. cbn [rev app].
      split; [|split; [exact T1|]].
      * cbn [rcanon e_start e_end fst snd]. repeat split; try assumption; lia.
      * apply (sep_from _ s e); [cbn; lia|lia|exact T2].
    + intros k. rewrite !den_app, !den_cons3, den_nil, T3. specialize (F1 k). specialize (D4 k).
      pose proof (den_gt post xe k R3 R2) as G. rewrite (D3 k) in G |- *.
      destruct (den pre k); destruct (den (take_while (pE e) post) k);
        destruct (den (drop_while (pE e) post) k); lia.
  - destruct (dw_canon e _ Hr0) as [D1 [D2 [D3 D4]]].
    destruct (trim_spec e _ D1 D2) as [T1 [T2 T3]].
    split.
    + apply canon_app_iff. split; [exact Hp|split; [exact T1|]].
      apply (sep_from _ s e); [exact Hb|lia|exact T2].
    + intros k. rewrite !den_app, T3. specialize (F1 k). specialize (D4 k).
      assert (G := den_ge _ xs k Hr0). cbn [lbw e_start fst] in G. specialize (G (N.le_refl _)).
      rewrite (D3 k) in G |- *.
      destruct (den pre k), (den (take_while _ _) k), (den (drop_while _ _) k); lia.
Qed.
Print Assumptions remove_spec.

(* ---------- 6. merge ---------- *)
Definition wsep (acc l : idrange) : Prop :=
  match l with [] => True | x :: _ => hble acc (e_start x) end.

Lemma push_spec acc s e : rcanon acc -> hble acc s ->
  rcanon (push_coalesced ueq acc s e tt) /\
  hble (push_coalesced ueq acc s e tt) (N.max s e) /\
  forall k, den (push_coalesced ueq acc s e tt) k = den acc k || inr s e k.
Proof.
  intros Hr Hb. unfold push_coalesced. destruct (e <=? s) eqn:E0.
  { repeat split; try assumption.
    - apply (hble_mono _ _ _ Hb); lia.
    - intros k. unfold inr. lia. }
  destruct acc as [|[[ls le] []] acc].
  - cbn [rcanon hb hble e_start e_end fst snd]. repeat split; try lia.
    intros k. rewrite den_cons3, !den_nil. unfold inr. lia.
  - cbn [rcanon e_start e_end fst snd] in Hr. destruct Hr as [H1 [H2 H3]].
    cbn [hble e_end fst snd] in Hb. unfold ueq. rewrite andb_true_r.
    destruct (s <=? le) eqn:E.
    + cbn [rcanon hb hble e_start e_end fst snd]. repeat split; try assumption; try lia.
      intros k. rewrite !den_cons3. unfold inr. lia.
    + cbn [rcanon hb hble e_start e_end fst snd]. repeat split; try assumption; try lia.
      intros k. rewrite !den_cons3. unfold inr. lia.
Qed.

Lemma push_all_spec : forall (a acc : idrange), canon a -> rcanon acc -> wsep acc a ->
  rcanon (push_all ueq acc a) /\
  forall k, den (push_all ueq acc a) k = den acc k || den a k.
Proof.
  induction a as [|[[s e] []] a IH]; intros acc Ha Hr Hs.
  - unfold push_all. cbn [fold_left]. split; [exact Hr|]. intros k. rewrite den_nil. lia.
  - unfold push_all. cbn [fold_left e_start e_end e_val fst snd].
    cbn [canon e_start e_end fst snd] in Ha. destruct Ha as [A1 [A2 A3]].
    cbn [wsep e_start fst] in Hs.
    destruct (push_spec acc s e Hr Hs) as [P1 [P2 P3]].
    assert (wsep (push_coalesced ueq acc s e tt) a) as Hs'.
    { destruct a as [|[[s2 e2] []] a']; [exact I|]. cbn [wsep e_start fst].
      cbn [lb_ok e_start fst] in A2. apply (hble_mono _ _ _ P2); lia. }
    destruct (IH _ A3 P1 Hs') as [I1 I2]. split; [exact I1|].
    intros k. etransitivity; [apply I2|]. rewrite P3, den_cons3. unfold inr. lia.
Qed.

Lemma merge_loop_spec : forall f (a b acc : idrange),
  (length a + length b <= f)%nat -> canon a -> canon b -> rcanon acc ->
  wsep acc a -> wsep acc b ->
  rcanon (merge_loop ueq umerge f a b acc) /\
  forall k, den (merge_loop ueq umerge f a b acc) k = den acc k || den a k || den b k.
Proof.
  induction f as [|f IH]; intros a b acc Hlen Ha Hb Hr Hsa Hsb.
  { destruct a, b; cbn [length] in Hlen; try lia. cbn [merge_loop].
    split; [exact Hr|]. intros k. rewrite !den_nil. lia. }
  destruct a as [|[[sa ea] []] a'], b as [|[[sb eb] []] b'].
  - cbn [merge_loop]. split; [exact Hr|]. intros k. rewrite !den_nil. lia.
  - cbn [merge_loop]. destruct (push_all_spec _ acc Hb Hr Hsb) as [P1 P2].
    split; [exact P1|]. intros k. rewrite P2, den_nil. lia.
  - cbn [merge_loop]. destruct (push_all_spec _ acc Ha Hr Hsa) as [P1 P2].
    split; [exact P1|]. intros k. rewrite P2, den_nil. lia.
  - cbn [merge_loop].
    pose proof Ha as Ha0. pose proof Hb as Hb0.
    cbn [canon e_start e_end fst snd] in Ha, Hb.
    destruct Ha as [A1 [A2 A3]]. destruct Hb as [B1 [B2 B3]].
    cbn [wsep e_start fst] in Hsa, Hsb. cbn [length] in Hlen.
    destruct (ea <=? sb) eqn:E1.
    { destruct (push_spec acc sa ea Hr Hsa) as [P1 [P2 P3]].
      assert (wsep (push_coalesced ueq acc sa ea tt) a') as S1.
      { destruct a' as [|[[s2 e2] []] a'']; [exact I|]. cbn [wsep e_start fst].
        cbn [lb_ok e_start fst] in A2. apply (hble_mono _ _ _ P2); lia. }
      assert (wsep (push_coalesced ueq acc sa ea tt) ((sb, eb, tt) :: b')) as S2.
      { cbn [wsep e_start fst]. apply (hble_mono _ _ _ P2); lia. }
      destruct (IH a' ((sb, eb, tt) :: b') _ ltac:(cbn [length]; lia) A3 Hb0 P1 S1 S2) as [I1 I2].
      split; [exact I1|]. intros k. etransitivity; [apply I2|].
      rewrite P3, !den_cons3. unfold inr. lia. }
    destruct (eb <=? sa) eqn:E2.
    { destruct (push_spec acc sb eb Hr Hsb) as [P1 [P2 P3]].
      assert (wsep (push_coalesced ueq acc sb eb tt) b') as S1.
      { destruct b' as [|[[s2 e2] []] b'']; [exact I|]. cbn [wsep e_start fst].
        cbn [lb_ok e_start fst] in B2. apply (hble_mono _ _ _ P2); lia. }
      assert (wsep (push_coalesced ueq acc sb eb tt) ((sa, ea, tt) :: a')) as S2.
      { cbn [wsep e_start fst]. apply (hble_mono _ _ _ P2); lia. }
      destruct (IH ((sa, ea, tt) :: a') b' _ ltac:(cbn [length]; lia) Ha0 B3 P1 S2 S1) as [I1 I2].
      split; [exact I1|]. intros k. etransitivity; [apply I2|].
      rewrite P3, !den_cons3. unfold inr. lia. }
    unfold umerge.
    set (acc1 := if sa <? sb then push_coalesced ueq acc sa sb tt
                 else if sb <? sa then push_coalesced ueq acc sb sa tt else acc).
    assert (rcanon acc1 /\ hble acc1 (N.max sa sb) /\
            forall k, den acc1 k = den acc k || inr (N.min sa sb) (N.max sa sb) k)
      as [Q1 [Q2 Q3]].
    { unfold acc1. destruct (sa <? sb) eqn:E3; [|destruct (sb <? sa) eqn:E4].
      - destruct (push_spec acc sa sb Hr Hsa) as [P1 [P2 P3]]. split; [exact P1|split].
        + apply (hble_mono _ _ _ P2); lia.
        + intros k. rewrite P3. unfold inr. lia.
      - destruct (push_spec acc sb sa Hr Hsb) as [P1 [P2 P3]]. split; [exact P1|split].
        + apply (hble_mono _ _ _ P2); lia.
        + intros k. rewrite P3. unfold inr. lia.
      - split; [exact Hr|split].
        + apply (hble_mono _ _ _ Hsa); lia.
        + intros k. unfold inr. lia. }
    destruct (push_spec acc1 (N.max sa sb) (N.min ea eb) Q1 Q2) as [P1 [P2 P3]].
    set (acc2 := push_coalesced ueq acc1 (N.max sa sb) (N.min ea eb) tt) in *.
    clearbody acc2. clearbody acc1.
    assert (forall l b0, lb_ok b0 l -> N.min ea eb <= b0 -> wsep acc2 l) as W.
    { intros l b0 L1 L2. destruct l as [|[[s2 e2] []] l']; [exact I|]. cbn [wsep e_start fst].
      cbn [lb_ok e_start fst] in L1. apply (hble_mono _ _ _ P2); lia. }
    assert (forall e2 l, wsep acc2 ((N.min ea eb, e2, tt) :: l)) as W2.
    { intros e2 l. cbn [wsep e_start fst]. apply (hble_mono _ _ _ P2); lia. }
    destruct (ea <? eb) eqn:E5; [|destruct (eb <? ea) eqn:E6].
    + assert (canon ((N.min ea eb, eb, tt) :: b')) as Hb1.
      { cbn [canon e_start e_end fst snd]. repeat split; try assumption; lia. }
      destruct (IH a' ((N.min ea eb, eb, tt) :: b') acc2 ltac:(cbn [length]; lia) A3 Hb1 P1
                  (W _ _ A2 ltac:(lia)) (W2 _ _)) as [I1 I2].
      split; [exact I1|]. intros k. etransitivity; [apply I2|].
      rewrite P3, Q3, !den_cons3. unfold inr. lia.
    + assert (canon ((N.min ea eb, ea, tt) :: a')) as Ha1.
      { cbn [canon e_start e_end fst snd]. repeat split; try assumption; lia. }
      destruct (IH ((N.min ea eb, ea, tt) :: a') b' acc2 ltac:(cbn [length]; lia) Ha1 B3 P1
                  (W2 _ _) (W _ _ B2 ltac:(lia))) as [I1 I2].
      split; [exact I1|]. intros k. etransitivity; [apply I2|].
      rewrite P3, Q3, !den_cons3. unfold inr. lia.
    + destruct (IH a' b' acc2 ltac:(lia) A3 B3 P1
                  (W _ _ A2 ltac:(lia)) (W _ _ B2 ltac:(lia))) as [I1 I2].
      split; [exact I1|]. intros k. etransitivity; [apply I2|].
      rewrite P3, Q3, !den_cons3. unfold inr. lia.
Qed.

Theorem merge_spec : forall a b, canon a -> canon b ->
  canon (merge ueq umerge a b) /\
  forall k, den (merge ueq umerge a b) k = den a k || den b k.
Proof.
  intros a b Ha Hb. unfold merge.
  destruct b as [|y b']; [split; [exact Ha|intros k; rewrite den_nil; lia]|].
  destruct a as [|x a']; [split; [exact Hb|intros k; rewrite den_nil; lia]|].
  destruct (merge_loop_spec (S (length (x :: a') + length (y :: b'))) (x :: a') (y :: b') []
              ltac:(lia) Ha Hb I I I) as [H1 H2].
  split; [apply canon_rev; exact H1|].
  intros k. rewrite den_rev. etransitivity; [apply H2|]. rewrite den_nil. reflexivity.
Qed.
Print Assumptions merge_spec.

(* ---------- 7. insert_with ---------- *)
Lemma cond_push_spec acc s0 e0 (c : bool) : rcanon acc -> hble acc s0 ->
  let acc' := if c then push_coalesced ueq acc s0 e0 tt else acc in
  rcanon acc' /\
  (forall B, hble acc B -> (c = true -> N.max s0 e0 <= B) -> hble acc' B) /\
  forall k, den acc' k = den acc k || (c && inr s0 e0 k).
Proof.
  intros Hr Hb. destruct c; cbv zeta.
  - destruct (push_spec acc s0 e0 Hr Hb) as [P1 [P2 P3]]. split; [exact P1|split].
    + intros B _ HB. apply (hble_mono _ _ _ P2). auto.
    + intros k. rewrite P3. reflexivity.
  - split; [exact Hr|split].
    + intros B HB _. exact HB.
    + intros k. cbn [andb]. lia.
Qed.

Section Repl.
Variables s e : N.
Hypothesis Hse : s < e.

Lemma repl_step_spec cursor acc es ee :
  rcanon acc -> hble acc cursor -> cursor <= es -> (s <= cursor \/ cursor = es) ->
  es < ee -> es <= e -> s <= ee ->
  fst (repl_step unit ueq umerge s e tt (cursor, acc) (es, ee, tt)) = ee /\
  rcanon (snd (repl_step unit ueq umerge s e tt (cursor, acc) (es, ee, tt))) /\
  hble (snd (repl_step unit ueq umerge s e tt (cursor, acc) (es, ee, tt))) ee /\
  forall k, den (snd (repl_step unit ueq umerge s e tt (cursor, acc) (es, ee, tt))) k
            = den acc k || inr es ee k || (inr s e k && inr cursor ee k).
Proof.
  intros Hr Hb H1 H2 H3 H4 H5. unfold repl_step, umerge.
  destruct (cond_push_spec acc cursor (N.min es e) ((s <=? cursor) && (cursor <? es)) Hr Hb)
    as [A1 [A2 A3]].
  set (acc1 := if (s <=? cursor) && (cursor <? es)
               then push_coalesced ueq acc cursor (N.min es e) tt else acc) in *.
  clearbody acc1.
  assert (hble acc1 es) as A2'.
  { apply A2; [apply (hble_mono _ _ _ Hb); lia|lia]. }
  destruct (cond_push_spec acc1 es s (es <? s) A1 A2') as [B1 [B2 B3]].
  set (acc2 := if es <? s then push_coalesced ueq acc1 es s tt else acc1) in *.
  clearbody acc2.
  assert (hble acc2 (N.max es s)) as B2'.
  { apply B2; [apply (hble_mono _ _ _ A2'); lia|lia]. }
  destruct (cond_push_spec acc2 (N.max es s) (N.min ee e) (N.max es s <? N.min ee e) B1 B2')
    as [C1 [C2 C3]].
  set (acc3 := if N.max es s <? N.min ee e
               then push_coalesced ueq acc2 (N.max es s) (N.min ee e) tt else acc2) in *.
  clearbody acc3.
  assert (hble acc3 (N.min ee e)) as C2'.
  { apply C2; [apply (hble_mono _ _ _ B2'); lia|lia]. }
  assert (hble acc3 e) as C2'' by (apply (hble_mono _ _ _ C2'); lia).
  destruct (cond_push_spec acc3 e ee (e <? ee) C1 C2'') as [D1 [D2 D3]].
  set (acc4 := if e <? ee then push_coalesced ueq acc3 e ee tt else acc3) in *.
  clearbody acc4.
  cbn [fst snd]. split; [reflexivity|]. split; [exact D1|]. split.
  - apply D2; [apply (hble_mono _ _ _ C2'); lia|lia].
  - intros k. rewrite D3, C3, B3, A3. unfold inr. destruct (den acc k); lia.
Qed.

Lemma repl_fold_spec : forall (M : idrange) cursor acc c' acc',
  canon M -> lbw cursor M ->
  (s <= cursor \/ match M with x :: _ => cursor = e_start x | [] => True end) ->
  rcanon acc -> hble acc cursor ->
  Forall (fun x => s <= e_end x /\ e_start x <= e) M ->
  fold_left (repl_step unit ueq umerge s e tt) M (cursor, acc) = (c', acc') ->
  rcanon acc' /\ hble acc' c' /\ cursor <= c' /\
  (M <> [] -> s <= c') /\
  (forall B, cursor <= B -> (forall k, den M k = true -> k < B) -> c' <= B) /\
  forall k, den acc' k = den acc k || den M k || (inr s e k && inr cursor c' k).
Proof.
  induction M as [|[[es ee] []] M IH]; intros cursor acc c' acc' Hc Hl Ho Hr Hb Hf E.
  - cbn [fold_left] in E. injection E as <- <-. repeat split; try assumption; try lia.
    + congruence.
    + intros k. rewrite den_nil. unfold inr. lia.
  - cbn [fold_left] in E.
    cbn [canon e_start e_end fst snd] in Hc. destruct Hc as [C1 [C2 C3]].
    cbn [lbw e_start fst] in Hl. cbn [e_start fst] in Ho.
    inversion Hf as [|x M' [F1 F2] Hf']. subst x M'. cbn [e_start e_end fst snd] in F1, F2.
    destruct (repl_step_spec cursor acc es ee Hr Hb Hl Ho C1 F2 F1) as [S1 [S2 [S3 S4]]].
    destruct (repl_step unit ueq umerge s e tt (cursor, acc) (es, ee, tt)) as [c1 acc1].
    cbn [fst snd] in S1, S2, S3, S4. subst c1.
    destruct (IH ee acc1 c' acc' C3 (lb_ok_w _ _ C2) (or_introl F1) S2 S3 Hf' E)
      as [I1 [I2 [I3 [I4 [I5 I6]]]]].
    split; [exact I1|]. split; [exact I2|]. split; [lia|]. split; [intros _; lia|]. split.
    + intros B HB1 HB2. apply I5.
      * specialize (HB2 (ee - 1)). rewrite den_cons3 in HB2.
        assert ((es <=? ee - 1) && (ee - 1 <? ee) = true) as X by lia. rewrite X in HB2.
        specialize (HB2 eq_refl). lia.
      * intros k Hk. apply HB2. rewrite den_cons3, Hk. lia.
    + intros k. rewrite I6, S4, den_cons3. unfold inr.
      pose proof (den_gt M ee k C3 C2) as G.
      destruct (den acc k); destruct (den M k); lia.
Qed.
End Repl.

Lemma canon_nth : forall (l : idrange) i x y, canon l ->
  nth_error l i = Some x -> nth_error l (S i) = Some y -> e_end x < e_start y.
Proof.
  induction l as [|a l IH]; intros i x y Hc H1 H2.
  - destruct i; discriminate.
  - destruct i.
    + cbn [nth_error] in H1, H2. injection H1 as <-. destruct l as [|b l']; [discriminate|].
      cbn [nth_error] in H2. injection H2 as <-. cbn [canon lb_ok] in Hc. tauto.
    + cbn [nth_error] in H1, H2. exact (IH i x y (canon_tail _ _ Hc) H1 H2).
Qed.

Lemma coalesce_pair_canon (l : idrange) i : canon l -> coalesce_pair ueq l i = l.
Proof.
  intros Hc. unfold coalesce_pair.
  destruct (nth_error l i) as [[[s1 e1] v1]|] eqn:E1; [|reflexivity].
  destruct (nth_error l (S i)) as [[[s2 e2] v2]|] eqn:E2; [|reflexivity].
  pose proof (canon_nth _ _ _ _ Hc E1 E2) as H. cbn [e_start e_end fst snd] in H.
  replace (s2 <=? e1) with false by lia. reflexivity.
Qed.

Lemma canon_ends_ge : forall (M : idrange) b, canon M ->
  match M with x :: _ => b <= e_end x | [] => True end ->
  Forall (fun x => b <= e_end x) M.
Proof.
  induction M as [|[[xs xe] []] M IH]; intros b Hc Hh; [constructor|].
  cbn [canon e_start e_end fst snd] in Hc. destruct Hc as [C1 [C2 C3]]. cbn [e_end fst snd] in Hh.
  constructor; [exact Hh|]. apply IH; [exact C3|].
  destruct M as [|[[ys ye] []] M']; [exact I|].
  cbn [canon lb_ok e_start e_end fst snd] in C2, C3 |- *. lia.
Qed.

Lemma lbw_of_den (x : idrange) b : canon x -> (forall k, den x k = true -> b <= k) -> lbw b x.
Proof.
  intros Hc H. destruct x as [|[[xs xe] []] x']; [exact I|].
  cbn [canon lbw e_start e_end fst snd] in Hc |- *. apply H. rewrite den_cons3. lia.
Qed.

Lemma sep_lbw acc b x : hb acc b -> lbw b x -> sep acc x.
Proof. destruct acc as [|y acc], x as [|z x]; cbn; try tauto. lia. Qed.

Definition pS (e : N) : entry unit -> bool := fun x => e_start x <=? e.
Definition pL (s : N) : entry unit -> bool := fun x => e_start x <? s.

Definition ins_model (A R : idrange) (s e : N) : idrange :=
  match take_while (pS e) R with
  | [] => A ++ (s, e, tt) :: R
  | first :: M' =>
      let st := fold_left (repl_step unit ueq umerge s e tt) (first :: M')
                  (N.min (e_start first) s, []) in
      let acc := if fst st <? e then push_coalesced ueq (snd st) (fst st) e tt else snd st in
      A ++ rev acc ++ drop_while (pS e) R
  end.

Lemma ins_model_spec (A R : idrange) s e : s < e -> canon (A ++ R) -> hb (rev A) s ->
  match R with [] => True | x :: _ => s <= e_end x end ->
  canon (ins_model A R s e) /\
  forall k, den (ins_model A R s e) k = den (A ++ R) k || inr s e k.
Proof.
  intros Hse Hc Hb Hh. unfold ins_model.
  pose proof (tw_dw (pS e) R) as HR. pose proof (tw_forall (pS e) R) as HF.
  pose proof (dw_head (pS e) R) as HQ.
  set (M := take_while (pS e) R) in *. set (Q := drop_while (pS e) R) in *.
  clearbody M Q. subst R.
  apply canon_app_iff in Hc. destruct Hc as [HA [HR HsA]].
  pose proof HR as HR0.
  apply canon_app_iff in HR. destruct HR as [HM [HQc HsM]].
  assert (lb_ok e Q) as HQe.
  { destruct Q as [|q Q']; [exact I|]. unfold pS in HQ. cbn [lb_ok]. lia. }
  pose proof (den_gt Q e) as GQ.
  destruct M as [|first M'].
  - cbn [app] in *. split.
    + apply canon_app_iff. split; [exact HA|]. split; [|exact Hb].
      cbn [canon e_start e_end fst snd]. repeat split; assumption.
    + intros k. rewrite !den_app, den_cons3. unfold inr. lia.
  - cbv zeta.
    destruct (fold_left (repl_step unit ueq umerge s e tt) (first :: M')
                (N.min (e_start first) s, [])) as [c' acc'] eqn:EF.
    cbn [fst snd].
    assert (canon (first :: M')) as HMc.
    { rewrite <- (rev_involutive (first :: M')). apply canon_rev. exact HM. }
    assert (Forall (fun x => s <= e_end x /\ e_start x <= e) (first :: M')) as HF2.
    { apply Forall_and.
      - apply canon_ends_ge; [exact HMc|exact Hh].
      - revert HF. apply Forall_impl. intros a Ha. unfold pS in Ha. lia. }
    assert (lbw (N.min (e_start first) s) (first :: M')) as Hlbw by (cbn [lbw]; lia).
    assert (s <= N.min (e_start first) s \/ N.min (e_start first) s = e_start first) as Hor by lia.
    destruct (repl_fold_spec s e Hse (first :: M') (N.min (e_start first) s) [] c' acc'
                HMc Hlbw Hor I I HF2 EF) as [I1 [I2 [I3 [I4 [I5 I6]]]]].
    specialize (I4 ltac:(discriminate)).
    destruct (cond_push_spec acc' c' e (c' <? e) I1 I2) as [P1 [P2 P3]].
    set (acc2 := if c' <? e then push_coalesced ueq acc' c' e tt else acc') in *.
    clearbody acc2.
    assert (hble acc2 (N.max c' e)) as P2'.
    { apply P2; [apply (hble_mono _ _ _ I2); lia|lia]. }
    assert (forall k, den (first :: M') k = true -> e_start first <= k) as GM.
    { intros k. apply den_ge; [exact HMc|cbn [lbw]; lia]. }
    assert (forall k, den acc2 k = den (first :: M') k || inr s e k) as D2.
    { intros k. rewrite P3, I6, den_nil. unfold inr. specialize (GM k).
      destruct (den (first :: M') k); lia. }
    assert (canon (rev acc2 ++ Q)) as HX.
    { apply canon_rev_app; [exact P1|exact HQc|].
      destruct Q as [|[[qs qe] []] Q']; [exact I|]. cbn [sep e_start fst].
      cbn [lb_ok e_start fst] in HQe. cbn [sep e_start fst] in HsM.
      apply (hble_lt _ _ _ P2').
      assert (c' <= qs - 1); [|lia].
      apply I5; [lia|]. intros k Hk. rewrite <- den_rev in Hk.
      apply (rden_lt _ _ _ HM); [|exact Hk].
      destruct (rev (first :: M')) as [|[[ls le] []] r]; [exact I|].
      cbn [hb hble e_end fst snd] in HsM |- *. lia. }
    assert (forall k, den (rev acc2 ++ Q) k = den (first :: M') k || inr s e k || den Q k) as DX.
    { intros k. rewrite den_app, den_rev, D2. reflexivity. }
    split.
    + apply canon_app_iff. split; [exact HA|]. split; [exact HX|].
      apply (sep_lbw _ (N.min (e_start first) s)).
      * cbn [sep app] in HsA. destruct (rev A) as [|[[ls le] []] r]; [exact I|].
        cbn [hb e_end fst snd] in HsA, Hb |- *. lia.
      * apply lbw_of_den; [exact HX|]. intros k Hk. rewrite DX in Hk. unfold inr in Hk.
        specialize (GM k). specialize (GQ k HQc HQe).
        destruct (den (first :: M') k); destruct (den Q k); lia.
    + intros k. rewrite den_app, DX, !den_app. lia.
Qed.

Definition lo_of (l : idrange) (s : N) : option nat :=
  let lo0 := partition_point (fun x => e_start x <? s) l in
  match lo0 with
  | O => Some O
  | S p => match nth_error l p with
           | Some x => Some (if s <=? e_end x then p else lo0)
           | None => None
           end
  end.

Lemma lo_calc (l : idrange) s : canon l ->
  exists A R, l = A ++ R /\ lo_of l s = Some (length A) /\ hb (rev A) s /\
              match R with [] => True | x :: _ => s <= e_end x end.
Proof.
  intros Hc. unfold lo_of. cbv zeta.
  pose proof (tw_dw (pL s) l) as Hl. pose proof (tw_forall (pL s) l) as HF.
  pose proof (dw_head (pL s) l) as HH.
  set (pre := take_while (pL s) l) in *. set (rest := drop_while (pL s) l) in *.
  clearbody pre rest. subst l.
  change (fun x : entry unit => e_start x <? s) with (pL s).
  rewrite (pp_app _ _ _ HF HH).
  assert (canon rest -> match rest with [] => True | x :: _ => s <= e_end x end) as Hrest.
  { intros Hr. destruct rest as [|[[xs xe] []] rest']; [exact I|].
    unfold pL in HH. cbn [canon e_start e_end fst snd] in HH, Hr |- *. lia. }
  destruct pre as [|p0 pre0] using rev_ind.
  - exists [], rest. cbn [app length rev hb]. repeat split. apply Hrest. exact Hc.
  - clear IHpre0. rewrite app_length. cbn [length]. rewrite Nat.add_1_r.
    rewrite <- app_assoc. rewrite nth_error_len_app. cbn [app hd_error].
    rewrite <- app_assoc in Hc. cbn [app] in Hc.
    apply Forall_app in HF. destruct HF as [HF0 HFx]. inversion HFx as [|? ? Hx _]. subst.
    unfold pL in Hx. destruct p0 as [[xs xe] []]. cbn [e_start e_end fst snd] in Hx |- *.
    destruct (s <=? xe) eqn:E.
    + exists pre0, ((xs, xe, tt) :: rest). repeat split.
      * apply canon_app_iff in Hc. destruct Hc as [_ [_ Hs]]. cbn [sep e_start fst] in Hs.
        apply (hb_mono _ _ _ Hs). lia.
      * cbn [e_end fst snd]. lia.
    + exists (pre0 ++ [(xs, xe, tt)]), rest. repeat split.
      * now rewrite <- app_assoc.
      * rewrite app_length. cbn [length]. now rewrite Nat.add_1_r.
      * rewrite rev_unit. cbn [hb e_end fst snd]. lia.
      * apply Hrest. apply canon_app_iff in Hc. destruct Hc as [_ [Hc _]].
        exact (canon_tail _ _ Hc).
Qed.

Lemma insert_general_eq (A R : idrange) s e :
  canon (ins_model A R s e) -> lo_of (A ++ R) s = Some (length A) ->
  insert_general ueq umerge (A ++ R) s e tt = Some (ins_model A R s e).
Proof.
  intros Hc Hlo. unfold insert_general. cbv zeta. unfold lo_of in Hlo. cbv zeta in Hlo.
  rewrite Hlo. rewrite skipn_len_app, firstn_len_app.
  unfold ins_model in *. change (fun x : entry unit => e_start x <=? e) with (pS e).
  destruct (take_while (pS e) R) as [|first M'] eqn:EM.
  - cbn [length]. rewrite Nat.add_0_r, Nat.eqb_refl.
    destruct (length A); rewrite !(coalesce_pair_canon _ _ Hc); reflexivity.
  - replace (Nat.eqb (length A) (length A + length (first :: M'))) with false
      by (symmetry; apply Nat.eqb_neq; cbn [length]; lia).
    assert (skipn (length A + length (first :: M')) (A ++ R) = drop_while (pS e) R) as HS.
    { rewrite <- (tw_dw (pS e) R) at 1. rewrite EM, app_assoc, <- app_length.
      apply skipn_len_app. }
    rewrite HS. cbv zeta in Hc.
    destruct (fold_left (repl_step unit ueq umerge s e tt) (first :: M')
                (N.min (e_start first) s, [])) as [c' acc'] eqn:EF.
    cbn [fst snd] in Hc |- *.
    set (acc2 := if c' <? e then push_coalesced ueq acc' c' e tt else acc') in *.
    destruct (length A + length (rev acc2))%nat; destruct (length A);
      rewrite ?(coalesce_pair_canon _ _ Hc); reflexivity.
Qed.

Theorem insert_with_spec : forall l s e, canon l -> s < e ->
  exists l', insert_with ueq umerge l s e tt = Some l' /\ canon l' /\
  forall k, den l' k = den l k || ((s <=? k) && (k <? e)).
Proof.
  intros l s e Hc Hse.
  assert (exists l', insert_general ueq umerge l s e tt = Some l' /\ canon l' /\
          forall k, den l' k = den l k || ((s <=? k) && (k <? e))) as General.
  { destruct (lo_calc l s Hc) as [A [R [-> [Hlo [Hb Hh]]]]].
    destruct (ins_model_spec A R s e Hse Hc Hb Hh) as [M1 M2].
    exists (ins_model A R s e). split; [apply insert_general_eq; assumption|].
    split; [exact M1|exact M2]. }
  unfold insert_with. replace (e <=? s) with false by lia.
  pose proof (rcanon_rev l Hc) as Hr. pose proof (rev_involutive l) as Hl.
  destruct (rev l) as [|[[ls le] []] racc] eqn:ER; [exact General|].
  destruct (ls <=? s) eqn:E1; [|exact General].
  cbn [rcanon e_start e_end fst snd] in Hr. destruct Hr as [R1 [R2 R3]].
  destruct (le <? s) eqn:E2.
  - exists (l ++ [(s, e, tt)]). split; [reflexivity|]. split.
    + apply canon_app_iff. rewrite ER. split; [|split].
      * cbn [rcanon e_start e_end fst snd]. repeat split; assumption.
      * cbn [canon lb_ok e_start e_end fst snd]. repeat split; lia.
      * cbn [sep hb e_start e_end fst snd]. lia.
    + intros k. rewrite den_app, den_cons3, den_nil. lia.
  - unfold ueq. exists (rev ((ls, N.max le e, tt) :: racc)). split; [reflexivity|]. split.
    + apply canon_rev. cbn [rcanon e_start e_end fst snd]. repeat split; try assumption; lia.
    + intros k. rewrite den_rev, <- Hl, den_rev, !den_cons3. lia.
Qed.
Print Assumptions insert_with_spec.

(* ---------- corollaries: set-algebra laws hold as equalities of representations ---------- *)
Corollary merge_comm a b : canon a -> canon b ->
  merge ueq umerge a b = merge ueq umerge b a.
Proof.
  intros Ha Hb. destruct (merge_spec a b Ha Hb) as [C1 D1]. destruct (merge_spec b a Hb Ha) as [C2 D2].
  apply canon_den_unique; [exact C1|exact C2|]. intros k. rewrite D1, D2. apply orb_comm.
Qed.

Corollary merge_assoc a b c : canon a -> canon b -> canon c ->
  merge ueq umerge (merge ueq umerge a b) c = merge ueq umerge a (merge ueq umerge b c).
Proof.
  intros Ha Hb Hc.
  destruct (merge_spec a b Ha Hb) as [C1 D1]. destruct (merge_spec b c Hb Hc) as [C2 D2].
  destruct (merge_spec _ c C1 Hc) as [C3 D3]. destruct (merge_spec a _ Ha C2) as [C4 D4].
  apply canon_den_unique; [exact C3|exact C4|]. intros k. rewrite D3, D4, D1, D2.
  symmetry. apply orb_assoc.
Qed.

Corollary merge_idem a : canon a -> merge ueq umerge a a = a.
Proof.
  intros Ha. destruct (merge_spec a a Ha Ha) as [C1 D1].
  apply canon_den_unique; [exact C1|exact Ha|]. intros k. rewrite D1. apply orb_diag.
Qed.

Corollary insert_is_merge l s e : canon l -> s < e ->
  insert_with ueq umerge l s e tt = Some (merge ueq umerge l [(s, e, tt)]).
Proof.
  intros Hl Hse. destruct (insert_with_spec l s e Hl Hse) as [l' [E [C1 D1]]].
  assert (canon [(s, e, tt)]) as Hx by (cbn [canon lb_ok e_start e_end fst snd]; auto).
  destruct (merge_spec l _ Hl Hx) as [C2 D2].
  rewrite E. f_equal. apply canon_den_unique; [exact C1|exact C2|].
  intros k. rewrite D1, D2, den_cons3, den_nil. now rewrite orb_false_r.
Qed.

Corollary remove_is_exclude l s e : canon l -> s < e ->
  remove l s e = Some (exclude l [(s, e, tt)]).
Proof.
  intros Hl Hse. destruct (remove_spec l s e Hl) as [l' [E [C1 D1]]].
  assert (canon [(s, e, tt)]) as Hx by (cbn [canon lb_ok e_start e_end fst snd]; auto).
  destruct (exclude_spec l _ Hl Hx) as [C2 D2].
  rewrite E. f_equal. apply canon_den_unique; [exact C1|exact C2|].
  intros k. rewrite D1, D2, den_cons3, den_nil. now rewrite orb_false_r.
Qed.

Corollary subset_of_merge a b : canon a -> canon b ->
  subset_of a b = true <-> merge ueq umerge a b = b.
Proof.
  intros Ha Hb. destruct (merge_spec a b Ha Hb) as [C1 D1].
  rewrite (subset_of_spec a b Ha Hb). split.
  - intros H. apply canon_den_unique; [exact C1|exact Hb|]. intros k. rewrite D1.
    specialize (H k). destruct (den a k); [now rewrite H|reflexivity].
  - intros E k Hk. rewrite <- E, D1, Hk. reflexivity.
Qed.
Print Assumptions subset_of_merge.
