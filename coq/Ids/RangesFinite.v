(* C16, finite part: over a bounded clock universe the transcribed IdRanges operations return
   exactly the canonical representation of the set-theoretic result.  Every statement is a
   [forallb ... = true] evaluated by the kernel's VM and lifted with [forallb_forall]; the bound
   is in the statement. *)
From Coq Require Import List NArith Bool Lia.
From YV Require Import Ids.Ranges.
Import ListNotations.
Open Scope N_scope.

(* ---------- the universe: bit vectors and their canonical range lists ---------- *)
Fixpoint all_bits (n : nat) : list (list bool) :=
  match n with
  | O => [[]]
  | S m => flat_map (fun t => [false :: t; true :: t]) (all_bits m)
  end.

Fixpoint of_bits_aux (bs : list bool) (k : N) (cur : option N) : idrange :=
  match bs with
  | [] => match cur with Some s => [(s, k, tt)] | None => [] end
  | true :: r => of_bits_aux r (k + 1) (match cur with Some s => Some s | None => Some k end)
  | false :: r =>
      match cur with
      | Some s => (s, k, tt) :: of_bits_aux r (k + 1) None
      | None => of_bits_aux r (k + 1) None
      end
  end.
Definition of_bits (bs : list bool) : idrange := of_bits_aux bs 0 None.

Fixpoint map2 {A B C} (f : A -> B -> C) (a : list A) (b : list B) : list C :=
  match a, b with
  | x :: a', y :: b' => f x y :: map2 f a' b'
  | _, _ => []
  end.

Fixpoint set_range {A} (bs : list A) (k s e : N) (v : A) : list A :=
  match bs with
  | [] => []
  | b :: r => (if (s <=? k) && (k <? e) then v else b) :: set_range r (k + 1) s e v
  end.

Definition entry_eqb (a b : entry unit) : bool :=
  (e_start a =? e_start b) && (e_end a =? e_end b).
Fixpoint list_eqb {A} (eq : A -> A -> bool) (a b : list A) : bool :=
  match a, b with
  | [], [] => true
  | x :: a', y :: b' => eq x y && list_eqb eq a' b'
  | _, _ => false
  end.
Definition ranges_eqb := list_eqb entry_eqb.
Definition oranges_eqb (a : option idrange) (b : idrange) : bool :=
  match a with Some a => ranges_eqb a b | None => false end.

Lemma entry_eqb_eq a b : entry_eqb a b = true -> a = b.
Proof.
  destruct a as [[s e] []], b as [[s' e'] []]; unfold entry_eqb; cbn.
  rewrite andb_true_iff, !N.eqb_eq. intros [-> ->]; reflexivity.
Qed.
Lemma list_eqb_eq {A} (eq : A -> A -> bool) :
  (forall a b, eq a b = true -> a = b) -> forall a b, list_eqb eq a b = true -> a = b.
Proof.
  intros H a; induction a as [|x a IH]; intros [|y b]; cbn; try discriminate; auto.
  rewrite andb_true_iff; intros [E1 E2]. f_equal; auto.
Qed.
Lemma ranges_eqb_eq a b : ranges_eqb a b = true -> a = b.
Proof. apply list_eqb_eq, entry_eqb_eq. Qed.
Lemma oranges_eqb_eq a b : oranges_eqb a b = true -> a = Some b.
Proof. destruct a; cbn; [intros H; f_equal; now apply ranges_eqb_eq | discriminate]. Qed.

Definition ranges_in (n : nat) : list (N * N) :=
  flat_map (fun s => map (fun e => (N.of_nat s, N.of_nat e)) (seq (S s) (n - s))) (seq 0 n).

Lemma all_bits_complete n x : length x = n -> In x (all_bits n).
Proof.
  revert x; induction n as [|n IH]; intros [|b x]; cbn; try discriminate; auto.
  intros [= E]. apply in_flat_map. exists x; split; [auto|]. destruct b; cbn; auto.
Qed.

Lemma ranges_in_complete n s e : s < e -> e <= N.of_nat n -> In (s, e) (ranges_in n).
Proof.
  intros H1 H2. unfold ranges_in. apply in_flat_map. exists (N.to_nat s). split.
  - apply in_seq. lia.
  - apply in_map_iff. exists (N.to_nat e). split.
    + f_equal; lia.
    + apply in_seq. lia.
Qed.

(* ---------- the checks, as boolean functions of the universe size ---------- *)
Definition U := 8%nat.

Definition chk_binary (n : nat) : bool :=
  forallb (fun x => forallb (fun y =>
      ranges_eqb (merge ueq umerge (of_bits x) (of_bits y)) (of_bits (map2 orb x y))
   && ranges_eqb (exclude (of_bits x) (of_bits y)) (of_bits (map2 (fun a b => a && negb b) x y))
   && ranges_eqb (intersect ueq umerge (of_bits x) (of_bits y)) (of_bits (map2 andb x y))
   && Bool.eqb (subset_of (of_bits x) (of_bits y)) (forallb (fun p => implb (fst p) (snd p)) (combine x y)))
    (all_bits n)) (all_bits n).

Definition chk_unary (n : nat) : bool :=
  forallb (fun x => forallb (fun se =>
      oranges_eqb (insert_with ueq umerge (of_bits x) (fst se) (snd se) tt)
                  (of_bits (set_range x 0 (fst se) (snd se) true))
   && oranges_eqb (remove (of_bits x) (fst se) (snd se))
                  (of_bits (set_range x 0 (fst se) (snd se) false)))
    (ranges_in n)) (all_bits n).

Definition chk_contains (n : nat) : bool :=
  forallb (fun x => forallb (fun k =>
      match contains_clock (of_bits x) (N.of_nat k) with
      | Some b => Bool.eqb b (nth k x false)
      | None => false
      end) (seq 0 (S n))) (all_bits n).

Lemma chk_binary_U : chk_binary U = true.
Proof. vm_cast_no_check (eq_refl true). Qed.
Lemma chk_unary_U : chk_unary U = true.
Proof. vm_cast_no_check (eq_refl true). Qed.
Lemma chk_contains_U : chk_contains U = true.
Proof. vm_cast_no_check (eq_refl true). Qed.

(* ---------- lifted statements ---------- *)
Section Lifted.
Variables x y : list bool.
Hypothesis Hx : length x = U.
Hypothesis Hy : length y = U.

Lemma binary_facts :
      merge ueq umerge (of_bits x) (of_bits y) = of_bits (map2 orb x y)
   /\ exclude (of_bits x) (of_bits y) = of_bits (map2 (fun a b => a && negb b) x y)
   /\ intersect ueq umerge (of_bits x) (of_bits y) = of_bits (map2 andb x y)
   /\ subset_of (of_bits x) (of_bits y) = forallb (fun p => implb (fst p) (snd p)) (combine x y).
Proof.
  pose proof chk_binary_U as H. unfold chk_binary in H.
  rewrite forallb_forall in H. specialize (H x (all_bits_complete _ _ Hx)).
  rewrite forallb_forall in H. specialize (H y (all_bits_complete _ _ Hy)).
  rewrite !andb_true_iff in H. destruct H as [[[H1 H2] H3] H4].
  repeat split; try (now apply ranges_eqb_eq). now apply eqb_prop.
Qed.
End Lifted.

Lemma unary_facts x s e : length x = U -> s < e -> e <= N.of_nat U ->
      insert_with ueq umerge (of_bits x) s e tt = Some (of_bits (set_range x 0 s e true))
   /\ remove (of_bits x) s e = Some (of_bits (set_range x 0 s e false)).
Proof.
  intros Hx H1 H2. pose proof chk_unary_U as H. unfold chk_unary in H.
  rewrite forallb_forall in H. specialize (H x (all_bits_complete _ _ Hx)).
  rewrite forallb_forall in H. specialize (H (s, e) (ranges_in_complete _ _ _ H1 H2)).
  rewrite andb_true_iff in H. destruct H as [Ha Hb]. split; now apply oranges_eqb_eq.
Qed.

Lemma contains_facts x k : length x = U -> (k <= U)%nat ->
  contains_clock (of_bits x) (N.of_nat k) = Some (nth k x false).
Proof.
  intros Hx Hk. pose proof chk_contains_U as H. unfold chk_contains in H.
  rewrite forallb_forall in H. specialize (H x (all_bits_complete _ _ Hx)).
  rewrite forallb_forall in H. specialize (H k).
  assert (In k (seq 0 (S U))) as Hin by (apply in_seq; lia).
  specialize (H Hin). destruct (contains_clock _ _); [|discriminate].
  f_equal. now apply eqb_prop.
Qed.

(* ---------- construction sequences of ANY length stay exact (induction over the sequence) ---------- *)
Inductive cstep := CIns (s e : N) | CRem (s e : N).
Definition cstep_ok (a : cstep) : Prop :=
  match a with CIns s e | CRem s e => s < e /\ e <= N.of_nat U end.

Definition model_step (st : option idrange) (a : cstep) : option idrange :=
  match st with
  | None => None
  | Some l => match a with
              | CIns s e => insert_with ueq umerge l s e tt
              | CRem s e => remove l s e
              end
  end.
Definition spec_step (x : list bool) (a : cstep) : list bool :=
  match a with
  | CIns s e => set_range x 0 s e true
  | CRem s e => set_range x 0 s e false
  end.

Lemma set_range_length {A} (bs : list A) k s e v : length (set_range bs k s e v) = length bs.
Proof. revert k; induction bs as [|b r IH]; intros k; cbn; [reflexivity|]. now rewrite IH. Qed.

Lemma construction_from x steps : length x = U -> Forall cstep_ok steps ->
  fold_left model_step steps (Some (of_bits x)) = Some (of_bits (fold_left spec_step steps x)).
Proof.
  intros Hx Hs. revert x Hx. induction Hs as [|a steps Ha Hs IH]; intros x Hx; cbn [fold_left]; [reflexivity|].
  destruct a as [s e|s e]; cbn [model_step spec_step]; destruct Ha as [H1 H2];
    destruct (unary_facts x s e Hx H1 H2) as [Hi Hr].
  - rewrite Hi. apply IH. now rewrite set_range_length.
  - rewrite Hr. apply IH. now rewrite set_range_length.
Qed.

Theorem construction_any_length steps : Forall cstep_ok steps ->
  fold_left model_step steps (Some []) = Some (of_bits (fold_left spec_step steps (repeat false U))).
Proof. intros H. apply (construction_from (repeat false U) steps); [apply repeat_length | exact H]. Qed.
