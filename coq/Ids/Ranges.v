(* Model of yrs/src/ids.rs: IdRanges<T>, transcribed loop for loop.
   An entry is (start, end, value); a range list is sorted by start.
   Functions that index into the vector return [option]: [None] is the Rust index panic. *)
From Coq Require Import List NArith Bool.
Import ListNotations.
Open Scope N_scope.

Section Ranges.
Variable T : Type.
Variable veq : T -> T -> bool.        (* PartialEq of the value type *)
Variable vmerge : T -> T -> T.        (* Merge::merge (self, other) *)

Definition entry : Type := (N * N * T)%type.
Definition ranges : Type := list entry.
Definition e_start (e : entry) : N := fst (fst e).
Definition e_end (e : entry) : N := snd (fst e).
Definition e_val (e : entry) : T := snd e.

(* push_coalesced on a vector kept in reverse (head = last element) *)
Definition push_coalesced (acc : ranges) (s e : N) (v : T) : ranges :=
  if e <=? s then acc else
  match acc with
  | (ls, le, lv) :: acc' =>
      if (s <=? le) && veq lv v then (ls, N.max le e, lv) :: acc' else (s, e, v) :: acc
  | [] => [(s, e, v)]
  end.

Definition push_all (acc : ranges) (l : ranges) : ranges :=
  fold_left (fun acc x => push_coalesced acc (e_start x) (e_end x) (e_val x)) l acc.

(* slice::partition_point on a partitioned slice *)
Fixpoint partition_point (p : entry -> bool) (l : ranges) : nat :=
  match l with
  | [] => O
  | x :: r => if p x then S (partition_point p r) else O
  end.

Definition contains_clock (l : ranges) (k : N) : option bool :=
  let idx := partition_point (fun e => e_start e <=? k) l in
  match idx with
  | O => Some false
  | S i => match nth_error l i with Some e => Some (k <? e_end e) | None => None end
  end.

(* coalesce entries i and i+1 when they touch and carry equal values *)
Definition coalesce_pair (l : ranges) (i : nat) : ranges :=
  match nth_error l i, nth_error l (S i) with
  | Some (s1, e1, v1), Some (s2, e2, v2) =>
      if (s2 <=? e1) && veq v1 v2
      then firstn i l ++ (s1, N.max e1 e2, v1) :: skipn (S (S i)) l
      else l
  | _, _ => l
  end.

Fixpoint take_while (p : entry -> bool) (l : ranges) : ranges :=
  match l with
  | [] => []
  | x :: r => if p x then x :: take_while p r else []
  end.

Definition repl_step (s e : N) (v : T) (st : N * ranges) (x : entry) : N * ranges :=
  let '(cursor, acc) := st in
  let '(es, ee, ev) := x in
  let acc := if (s <=? cursor) && (cursor <? es) then push_coalesced acc cursor (N.min es e) v else acc in
  let acc := if es <? s then push_coalesced acc es s ev else acc in
  let os := N.max es s in
  let oe := N.min ee e in
  let acc := if os <? oe then push_coalesced acc os oe (vmerge ev v) else acc in
  let acc := if e <? ee then push_coalesced acc e ee ev else acc in
  (ee, acc).

Definition insert_general (l : ranges) (s e : N) (v : T) : option ranges :=
  let lo0 := partition_point (fun x => e_start x <? s) l in
  let lo := match lo0 with
            | O => Some O
            | S p => match nth_error l p with
                     | Some x => Some (if s <=? e_end x then p else lo0)
                     | None => None
                     end
            end in
  match lo with
  | None => None
  | Some lo =>
    let mid := take_while (fun x => e_start x <=? e) (skipn lo l) in
    let hi := (lo + length mid)%nat in
    if Nat.eqb lo hi then
      let l1 := firstn lo l ++ (s, e, v) :: skipn lo l in
      let l2 := coalesce_pair l1 lo in
      Some (match lo with O => l2 | S p => coalesce_pair l2 p end)
    else
      match mid with
      | [] => None
      | first :: _ =>
        let cursor := N.min (e_start first) s in
        let '(cursor', acc) := fold_left (repl_step s e v) mid (cursor, []) in
        let acc := if cursor' <? e then push_coalesced acc cursor' e v else acc in
        let repl := rev acc in
        let l1 := firstn lo l ++ repl ++ skipn hi l in
        let splice_end := (lo + length repl)%nat in
        let l2 := match splice_end with O => l1 | S p => coalesce_pair l1 p end in
        Some (match lo with O => l2 | S p => coalesce_pair l2 p end)
      end
  end.

Definition insert_with (l : ranges) (s e : N) (v : T) : option ranges :=
  if e <=? s then Some l else
  let fast :=
    match rev l with
    | (ls, le, lv) :: racc =>
        if ls <=? s then
          if le <? s then Some (l ++ [(s, e, v)])
          else if veq lv v then Some (rev ((ls, N.max le e, lv) :: racc))
          else if s =? le then Some (l ++ [(s, e, v)])
          else None
        else None
    | [] => None
    end in
  match fast with
  | Some r => Some r
  | None => insert_general l s e v
  end.

Definition remove (l : ranges) (s e : N) : option ranges :=
  if (e <=? s) then Some l else
  match l with [] => Some l | _ =>
  let i := partition_point (fun x => e_end x <=? s) l in
  match nth_error l i with
  | None => Some l
  | Some (xs, xe, xv) =>
    if (xs <? s) && (e <? xe) then
      Some (firstn i l ++ (xs, s, xv) :: (e, xe, xv) :: skipn (S i) l)
    else
      let '(l1, i1) := if xs <? s then (firstn i l ++ (xs, s, xv) :: skipn (S i) l, S i) else (l, i) in
      let covered := take_while (fun x => e_end x <=? e) (skipn i1 l1) in
      let j := (i1 + length covered)%nat in
      let l2 := match nth_error l1 j with
                | Some (ys, ye, yv) =>
                    if ys <? e then firstn j l1 ++ (e, ye, yv) :: skipn (S j) l1 else l1
                | None => l1
                end in
      Some (firstn i1 l2 ++ skipn j l2)
  end end.

(* two-pointer merge; the head of each list carries its effective start (a_cur / b_cur) *)
Fixpoint merge_loop (fuel : nat) (a b : ranges) (acc : ranges) : ranges :=
  match fuel with
  | O => acc
  | S f =>
    match a, b with
    | [], [] => acc
    | _ :: _, [] => push_all acc a
    | [], _ :: _ => push_all acc b
    | (sa, ea, va) :: a', (sb, eb, vb) :: b' =>
      if ea <=? sb then merge_loop f a' b (push_coalesced acc sa ea va)
      else if eb <=? sa then merge_loop f a b' (push_coalesced acc sb eb vb)
      else
        let acc1 := if sa <? sb then push_coalesced acc sa sb va
                    else if sb <? sa then push_coalesced acc sb sa vb else acc in
        let os := N.max sa sb in
        let oe := N.min ea eb in
        let acc2 := push_coalesced acc1 os oe (vmerge va vb) in
        if ea <? eb then merge_loop f a' ((oe, eb, vb) :: b') acc2
        else if eb <? ea then merge_loop f ((oe, ea, va) :: a') b' acc2
        else merge_loop f a' b' acc2
    end
  end.

Definition merge (a b : ranges) : ranges :=
  match b with [] => a | _ =>
  match a with [] => b | _ =>
    rev (merge_loop (S (length a + length b)) a b [])
  end end.

Fixpoint drop_while (p : entry -> bool) (l : ranges) : ranges :=
  match l with
  | [] => []
  | x :: r => if p x then drop_while p r else l
  end.
End Ranges.

Arguments push_coalesced {T}.
Arguments push_all {T}.
Arguments partition_point {T}.
Arguments contains_clock {T}.
Arguments coalesce_pair {T}.
Arguments take_while {T}.
Arguments drop_while {T}.
Arguments insert_with {T}.
Arguments insert_general {T}.
Arguments remove {T}.
Arguments merge {T}.
Arguments merge_loop {T}.
Arguments e_start {T}.
Arguments e_end {T}.
Arguments e_val {T}.

Section Ranges2.
Variable T U : Type.
Variable veq : T -> T -> bool.
Variable vmerge : T -> T -> T.

(* exclude: inner cut loop over other[j..] *)
Fixpoint excl_inner (start e : N) (v : T) (o : ranges U) (acc : ranges T) {struct o}
  : N * ranges U * ranges T :=
  match o with
  | [] => (start, o, acc)
  | (os, oe, _) :: o' =>
    if negb (start <? e) then (start, o, acc)
    else if e <=? os then (start, o, acc)
    else
      let acc' := if start <? os then (start, os, v) :: acc else acc in
      let start' := N.max start oe in
      if oe <? e then excl_inner start' e v o' acc' else (start', o, acc')
  end.

Definition excl_step (st : ranges U * ranges T) (x : entry T) : ranges U * ranges T :=
  let '(o, acc) := st in
  let '(s, e, v) := x in
  let o1 := drop_while (fun y => e_end y <=? s) o in
  let '(start', o2, acc') := excl_inner s e v o1 acc in
  let acc'' := if start' <? e then (start', e, v) :: acc' else acc' in
  (o2, acc'').

Definition exclude (l : ranges T) (other : ranges U) : ranges T :=
  match other with [] => l | _ =>
  match l with [] => l | _ =>
    rev (snd (fold_left excl_step l (other, [])))
  end end.
End Ranges2.
Arguments exclude {T U}.
Arguments excl_inner {T U}.
Arguments excl_step {T U}.

Section Ranges3.
Variable T : Type.
Variable veq : T -> T -> bool.
Variable vmerge : T -> T -> T.

Definition isect_push (acc : ranges T) (lo hi : N) (m : T) : ranges T :=
  match acc with
  | (ls, le, lv) :: acc' => if (le =? lo) && veq lv m then (ls, hi, lv) :: acc' else (lo, hi, m) :: acc
  | [] => [(lo, hi, m)]
  end.

Fixpoint isect_inner (s e : N) (v : T) (o : ranges T) (acc : ranges T) {struct o}
  : ranges T * ranges T :=
  match o with
  | [] => (o, acc)
  | (os, oe, ov) :: o' =>
    if e <=? os then (o, acc)
    else
      let lo := N.max s os in
      let hi := N.min e oe in
      let acc' := if lo <? hi then isect_push acc lo hi (vmerge v ov) else acc in
      if oe <? e then isect_inner s e v o' acc' else (o, acc')
  end.

Definition isect_step (st : ranges T * ranges T) (x : entry T) : ranges T * ranges T :=
  let '(o, acc) := st in
  let '(s, e, v) := x in
  let o1 := drop_while (fun y => e_end y <=? s) o in
  isect_inner s e v o1 acc.

Definition intersect (l other : ranges T) : ranges T :=
  match l, other with
  | [], _ => []
  | _, [] => []
  | _, _ => rev (snd (fold_left isect_step l (other, [])))
  end.

(* id_set.rs: IdRanges<()>::subset_of / is_range_covered *)
Fixpoint covered_loop (current e : N) (o : ranges T) : bool :=
  match o with
  | [] => e <=? current
  | (os, oe, _) :: o' =>
    if oe <=? current then covered_loop current e o'
    else if current <? os then false
    else if e <=? oe then true else covered_loop oe e o'
  end.

Definition is_range_covered (s e : N) (o : ranges T) : bool :=
  if e <=? s then true else covered_loop s e o.

Definition subset_of (l o : ranges T) : bool :=
  forallb (fun x => is_range_covered (e_start x) (e_end x) o) l.

(* find_start: binary search as written; fuel = length + 1 iterations suffices *)
Fixpoint find_start_loop (fuel : nat) (l : ranges T) (k : N) (left right : nat) : option (option nat) :=
  match fuel with
  | O => Some None
  | S f =>
    if Nat.ltb right left then Some (if Nat.ltb left (length l) then Some left else None) else
    let mid := Nat.div (left + right) 2 in
    match nth_error l mid with
    | None => None
    | Some (s, e, _) =>
      if s <=? k then
        if k <? e then Some (Some mid) else find_start_loop f l k (S mid) right
      else
        match mid with
        | O => Some (if Nat.ltb left (length l) then Some left else None)
        | S m => find_start_loop f l k left m
        end
    end
  end.

Definition find_start (l : ranges T) (k : N) : option (option nat) :=
  match l with
  | [] => Some None
  | _ => find_start_loop (S (length l)) l k O (length l - 1)
  end.
End Ranges3.
Arguments intersect {T}.
Arguments isect_step {T}.
Arguments isect_inner {T}.
Arguments isect_push {T}.
Arguments subset_of {T}.
Arguments is_range_covered {T}.
Arguments covered_loop {T}.
Arguments find_start {T}.

(* ---------- per-client lifting: ids.rs IdMapInner, id_set.rs IdSet, id_map.rs IdMap ---------- *)
Section IdMapInner.
Variable T : Type.
Variable veq : T -> T -> bool.
Variable vmerge : T -> T -> T.

Definition idmap : Type := list (N * ranges T).   (* BTreeMap: sorted by client *)

Fixpoint im_get (m : idmap) (c : N) : option (ranges T) :=
  match m with
  | [] => None
  | (c', r) :: m' => if c' =? c then Some r else if c <? c' then None else im_get m' c
  end.

Fixpoint im_set (m : idmap) (c : N) (r : ranges T) : idmap :=
  match m with
  | [] => [(c, r)]
  | (c', r') :: m' =>
    if c' =? c then (c, r) :: m'
    else if c <? c' then (c, r) :: m
    else (c', r') :: im_set m' c r
  end.

Fixpoint im_del (m : idmap) (c : N) : idmap :=
  match m with
  | [] => []
  | (c', r') :: m' => if c' =? c then m' else (c', r') :: im_del m' c
  end.

Definition im_contains (m : idmap) (c k : N) : option bool :=
  match im_get m c with
  | Some r => contains_clock r k
  | None => Some false
  end.

(* IdMapInner::insert_range: entry(client).or_default().insert_with(range, value) *)
Definition im_insert_range (m : idmap) (c s e : N) (v : T) : option idmap :=
  let r := match im_get m c with Some r => r | None => [] end in
  match insert_with veq vmerge r s e v with
  | Some r' => Some (im_set m c r')
  | None => None
  end.

Definition im_merge_with (m other : idmap) : idmap :=
  fold_left (fun m '(c, r) =>
    match im_get m c with
    | Some r0 => im_set m c (merge veq vmerge r0 r)
    | None => im_set m c r
    end) other m.

Definition retain_nonempty (m : idmap) : idmap :=
  filter (fun cr => match snd cr with [] => false | _ => true end) m.

Definition im_intersect_with (m other : idmap) : idmap :=
  retain_nonempty
    (flat_map (fun '(c, r) =>
       match im_get other c with
       | Some ro => [(c, intersect veq vmerge r ro)]
       | None => []
       end) m).

(* IdSet::remove_range / IdMap::remove *)
Definition im_remove_range (m : idmap) (c s e : N) : option idmap :=
  match im_get m c with
  | None => Some m
  | Some r =>
    match remove r s e with
    | None => None
    | Some [] => Some (im_del m c)
    | Some r' => Some (im_set m c r')
    end
  end.
End IdMapInner.
Arguments im_get {T}.
Arguments im_set {T}.
Arguments im_del {T}.
Arguments im_contains {T}.
Arguments im_insert_range {T}.
Arguments im_merge_with {T}.
Arguments im_intersect_with {T}.
Arguments im_remove_range {T}.
Arguments retain_nonempty {T}.

Definition im_diff_with {T U} (m : idmap T) (other : idmap U) : idmap T :=
  retain_nonempty
    (map (fun '(c, r) =>
       match im_get other c with
       | Some ro => (c, exclude r ro)
       | None => (c, r)
       end) m).

(* ---------- the two instances ---------- *)
Definition ueq (_ _ : unit) : bool := true.
Definition umerge (a _ : unit) : unit := a.
Definition idrange := ranges unit.
Definition idset := idmap unit.

(* IdSet::insert(id, len) *)
Definition idset_insert (m : idset) (c k len : N) : option idset :=
  if len =? 0 then Some m else im_insert_range ueq umerge m c k (k + len) tt.
(* IdSet::insert_range(client, IdRange) *)
Definition idset_insert_range (m : idset) (c : N) (r : idrange) : idset :=
  match r with [] => m | _ =>
  match im_get m c with
  | Some r0 => im_set m c (merge ueq umerge r0 r)
  | None => im_set m c r
  end end.

(* ContentAttributes<A>: a vector of attributes compared as a set, merged by appending the missing *)
Definition attrs := list N.
Definition mem_n (x : N) (l : list N) : bool := existsb (N.eqb x) l.
Definition attrs_eq (a b : attrs) : bool :=
  Nat.eqb (length a) (length b) && forallb (fun x => mem_n x b) a.
Definition attrs_merge (a b : attrs) : attrs :=
  fold_left (fun acc x => if mem_n x acc then acc else acc ++ [x]) b a.
Definition idattrmap := idmap attrs.

(* IdMap::insert(range, attrs) *)
Definition idattr_insert (m : idattrmap) (c k len : N) (a : attrs) : option idattrmap :=
  match a with [] => Some m | _ =>
  if len =? 0 then Some m else im_insert_range attrs_eq attrs_merge m c k (k + len) a end.
(* IdMap::remove *)
Definition idattr_remove (m : idattrmap) (c k len : N) : option idattrmap :=
  if len =? 0 then Some m else im_remove_range m c k (k + len).
(* IdMap::as_id_set = inner.map(|_| ()) *)
Definition idattr_as_set (m : idattrmap) : option idset :=
  fold_right (fun '(c, r) acc =>
     match acc with None => None | Some acc =>
     match fold_left (fun st '(s, e, _) => match st with None => None | Some l => insert_with ueq umerge l s e tt end) r (Some []) with
     | Some r' => Some ((c, r') :: acc)
     | None => None
     end end) (Some []) m.
