#!/bin/sh
# MANIFEST.setup_cmd: build the whole framework from files on disk (offline).
set -e
ROOT=$(cd "$(dirname "$0")" && pwd)
cd "$ROOT"
mkdir -p .build evidence
python3 tools/gen_consts.py || true
cd coq
coq_makefile -f _CoqProject -o Makefile > /dev/null
timeout 3000 make -j16 2>&1 | tail -15
cd ..
./tools/build_runner.sh
./tools/build_harness.sh
./tools/build_harness_ffi.sh
echo "setup ok"
