//! yv-harness-ffi C19 [--tier quick|thorough] [--seed N] [--out file] [--range lo hi]
#[path = "/repo/yffi/src/lib.rs"]
#[allow(warnings)]
mod yffi;
#[path = "../../harness/src/rng.rs"]
mod rng;
#[path = "../../harness/src/report.rs"]
mod report;
fn main() { println!("ok"); }
