//! yv-harness-ffi C19 [--tier quick|thorough] [--seed N] [--out file] [--range lo hi]
//!
//! The C API of y-crdt (`/repo/yffi/src/lib.rs`) is compiled INTO this binary as a module, so that the exported
//! `extern "C"` functions can be called directly with raw pointers, next to the native Rust API of the same yrs build.
//! Parent mode re-executes this binary on chunks of cases (report::isolated) so that an abort inside an `extern "C"`
//! function (a panic there cannot unwind) is observed as a "process-crashed" failure of one case.
//! `YV_ONLY=<index>` runs one case in this process (debugging; YV_DEBUG=1 prints the script while it runs).
#[path = "/repo/yffi/src/lib.rs"]
#[allow(warnings)]
mod yffi;
#[path = "../../harness/src/rng.rs"]
#[allow(dead_code)]
mod rng;
#[path = "../../harness/src/report.rs"]
#[allow(dead_code)]
mod report;
#[path = "../../harness/src/model.rs"]
#[allow(dead_code)]
mod model;
mod c19;

use std::alloc::{GlobalAlloc, Layout, System};
use std::cell::Cell;
use std::time::Instant;

thread_local! { pub static LIVE_BYTES: Cell<i64> = const { Cell::new(0) }; pub static LIVE_BLOCKS: Cell<i64> = const { Cell::new(0) }; }
/// Counts the bytes / blocks currently allocated by the calling thread (used by the leak probes of C19: an
/// acquire-and-destroy pair of C API calls must leave both counters where they were).
pub struct Counting;
unsafe impl GlobalAlloc for Counting {
    unsafe fn alloc(&self, l: Layout) -> *mut u8 {
        let p = System.alloc(l);
        if !p.is_null() { let _ = LIVE_BYTES.try_with(|c| c.set(c.get() + l.size() as i64)); let _ = LIVE_BLOCKS.try_with(|c| c.set(c.get() + 1)); }
        p
    }
    unsafe fn dealloc(&self, p: *mut u8, l: Layout) {
        System.dealloc(p, l);
        let _ = LIVE_BYTES.try_with(|c| c.set(c.get() - l.size() as i64)); let _ = LIVE_BLOCKS.try_with(|c| c.set(c.get() - 1));
    }
    unsafe fn alloc_zeroed(&self, l: Layout) -> *mut u8 {
        let p = System.alloc_zeroed(l);
        if !p.is_null() { let _ = LIVE_BYTES.try_with(|c| c.set(c.get() + l.size() as i64)); let _ = LIVE_BLOCKS.try_with(|c| c.set(c.get() + 1)); }
        p
    }
    unsafe fn realloc(&self, p: *mut u8, l: Layout, new_size: usize) -> *mut u8 {
        let q = System.realloc(p, l, new_size);
        if !q.is_null() { let _ = LIVE_BYTES.try_with(|c| c.set(c.get() + new_size as i64 - l.size() as i64)); }
        q
    }
}
#[global_allocator]
static GLOBAL: Counting = Counting;
pub fn live() -> (i64, i64) { (LIVE_BYTES.with(|c| c.get()), LIVE_BLOCKS.with(|c| c.get())) }

fn main() {
    let args: Vec<String> = std::env::args().collect();
    if args.len() < 2 { eprintln!("usage: yv-harness-ffi C19 [--tier quick|thorough] [--seed n] [--out f] [--range lo hi]"); std::process::exit(2); }
    let prop = args[1].clone();
    let mut tier = "quick".to_string();
    let mut seed: u64 = 1;
    let mut out: Option<String> = None;
    let mut range: Option<(u64, u64)> = None;
    let mut probe: Option<String> = None;
    let mut i = 2;
    while i < args.len() {
        match args[i].as_str() {
            "--tier" if i + 1 < args.len() => { tier = args[i + 1].clone(); i += 1 }
            "--seed" if i + 1 < args.len() => { seed = args[i + 1].parse().unwrap_or(1); i += 1 }
            "--out" if i + 1 < args.len() => { out = Some(args[i + 1].clone()); i += 1 }
            "--probe" if i + 1 < args.len() => { probe = Some(args[i + 1].clone()); i += 1 }
            "--range" if i + 2 < args.len() => { range = Some((args[i + 1].parse().unwrap_or(0), args[i + 2].parse().unwrap_or(0))); i += 2 }
            _ => {}
        }
        i += 1;
    }
    if prop != "C19" { eprintln!("unknown property {}", prop); std::process::exit(2); }
    if let Some(p) = probe { std::env::set_var("YV_DEBUG", "1"); report::install_panic_hook(); unsafe { c19::run_probe(&p) }; return; }
    report::install_panic_hook();
    let workers: usize = std::env::var("YV_WORKERS").ok().and_then(|s| s.parse().ok()).unwrap_or(16);
    let t0 = Instant::now();
    if let Some((lo, hi)) = range {
        // child of report::isolated: one thread, a slice of the cases, full report back to the parent
        let rep = c19::run_range(&tier, seed, lo, hi);
        std::fs::write(out.expect("--out"), serde_json::to_string(&rep.to_json_full()).unwrap()).unwrap();
        return;
    }
    let rep = if let Some(only) = std::env::var("YV_ONLY").ok().and_then(|s| s.parse::<u64>().ok()) {
        c19::run_range(&tier, seed, only, only + 1)
    } else {
        // the abort / hang probes (own child processes) run next to the random cases
        let (mut r, p) = std::thread::scope(|sc| {
            let h = sc.spawn(|| { let mut p = report::Report::default(); c19::run_probes(&mut p); c19::scripted_findings(&mut p); p });
            let r = report::isolated("C19", &tier, seed, c19::cases(&tier), 100, workers);
            (r, h.join().unwrap_or_default())
        });
        r.merge(p);
        r.notes.extend(c19::notes());
        r
    };
    let mut j = rep.to_json();
    j["wall_s"] = serde_json::json!(t0.elapsed().as_secs_f64());
    j["property"] = serde_json::json!(prop);
    j["tier"] = serde_json::json!(tier);
    j["seed"] = serde_json::json!(seed);
    let s = serde_json::to_string_pretty(&j).unwrap();
    match out { Some(p) => std::fs::write(p, s).unwrap(), None => println!("{}", s) }
}
