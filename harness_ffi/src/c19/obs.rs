//! Observers: C callbacks render the event they receive through the event accessor functions into a canonical
//! string; the twin's native observers render the same event from the Rust event types.
use super::vals::*;
use crate::yffi as y;

use std::collections::{HashMap, VecDeque};
use std::ffi::{c_void, CStr};

use std::sync::Arc;
use yrs::types::{Attrs, Change, Delta, EntryChange, Event, PathSegment};
use yrs::{Any, Out, XmlOut};

pub struct ObsState { pub log: Vec<String>, pub target: *const y::Branch, pub cells: u64, pub calls: u64 }

unsafe fn c_attrs(p: *mut y::YDeltaAttr, n: u32, cells: &mut u64) -> String {
    if p.is_null() { return String::new(); }
    let mut es: Vec<String> = (0..n as usize).map(|i| { let a = &*p.add(i); format!("{}={}", hx(CStr::from_ptr(a.key).to_bytes()), cell_of_c(&a.value, cells)) }).collect(); es.sort();
    format!("{{{}}}", es.join("&"))
}
unsafe fn c_text_delta(d: *mut y::YDeltaOut, n: u32, cells: &mut u64) -> String {
    (0..n as usize).map(|i| { let x = &*d.add(i); match x.tag {
        y::Y_EVENT_CHANGE_ADD => format!("+{}x{}{}", x.len, if x.insert.is_null() { "NULL".into() } else { cell_of_c(x.insert, cells) }, c_attrs(x.attributes, x.attributes_len, cells)),
        y::Y_EVENT_CHANGE_DELETE => format!("-{}", x.len), y::Y_EVENT_CHANGE_RETAIN => format!("={}{}", x.len, c_attrs(x.attributes, x.attributes_len, cells)), t => format!("?{}", t) } }).collect::<Vec<_>>().join(" ")
}
unsafe fn c_changes(d: *mut y::YEventChange, n: u32, cells: &mut u64) -> String {
    (0..n as usize).map(|i| { let x = &*d.add(i); match x.tag {
        y::Y_EVENT_CHANGE_ADD => format!("+[{}]", (0..x.len as usize).map(|k| cell_of_c(x.values.add(k), cells)).collect::<Vec<_>>().join(",")),
        y::Y_EVENT_CHANGE_DELETE => format!("-{}", x.len), y::Y_EVENT_CHANGE_RETAIN => format!("={}", x.len), t => format!("?{}", t) } }).collect::<Vec<_>>().join(" ")
}
unsafe fn c_keys(d: *mut y::YEventKeyChange, n: u32, cells: &mut u64) -> String {
    let mut es: Vec<String> = (0..n as usize).map(|i| { let x = &*d.add(i);
        let t = match x.tag { y::Y_EVENT_KEY_CHANGE_ADD => "A", y::Y_EVENT_KEY_CHANGE_DELETE => "D", y::Y_EVENT_KEY_CHANGE_UPDATE => "U", _ => "?" };
        format!("{}:{}({}>{})", hx(CStr::from_ptr(x.key).to_bytes()), t, if x.old_value.is_null() { "_".into() } else { cell_of_c(x.old_value, cells) }, if x.new_value.is_null() { "_".into() } else { cell_of_c(x.new_value, cells) }) }).collect();
    es.sort(); es.join(" ")
}
unsafe fn c_path(p: *mut y::YPathSegment, n: u32) -> String {
    (0..n as usize).map(|i| { let s = &*p.add(i); match s.tag { y::Y_EVENT_PATH_KEY => format!("/k{}", hx(CStr::from_ptr(s.value.key).to_bytes())), y::Y_EVENT_PATH_INDEX => format!("/i{}", s.value.index), t => format!("/?{}", t) } }).collect()
}
unsafe fn c_text_event(e: *const y::YTextEvent, cells: &mut u64) -> String {
    let mut n = 0u32; let p = y::ytext_event_path(e, &mut n); let path = c_path(p, n); y::ypath_destroy(p, n);
    let mut n = 0u32; let d = y::ytext_event_delta(e, &mut n); let s = c_text_delta(d, n, cells); y::ytext_delta_destroy(d, n);
    format!("path={} delta={}", path, s)
}
unsafe fn c_array_event(e: *const y::YArrayEvent, cells: &mut u64) -> String {
    let mut n = 0u32; let p = y::yarray_event_path(e, &mut n); let path = c_path(p, n); y::ypath_destroy(p, n);
    let mut n = 0u32; let d = y::yarray_event_delta(e, &mut n); let s = c_changes(d, n, cells); y::yevent_delta_destroy(d, n);
    format!("path={} delta={}", path, s)
}
unsafe fn c_map_event(e: *const y::YMapEvent, cells: &mut u64) -> String {
    let mut n = 0u32; let p = y::ymap_event_path(e, &mut n); let path = c_path(p, n); y::ypath_destroy(p, n);
    let mut n = 0u32; let d = y::ymap_event_keys(e, &mut n); let s = c_keys(d, n, cells); y::yevent_keys_destroy(d, n);
    format!("path={} keys={}", path, s)
}
unsafe fn c_xml_event(e: *const y::YXmlEvent, cells: &mut u64) -> String {
    let mut n = 0u32; let p = y::yxmlelem_event_path(e, &mut n); let path = c_path(p, n); y::ypath_destroy(p, n);
    let mut n = 0u32; let d = y::yxmlelem_event_delta(e, &mut n); let s = c_changes(d, n, cells); y::yevent_delta_destroy(d, n);
    let mut n = 0u32; let d = y::yxmlelem_event_keys(e, &mut n); let k = c_keys(d, n, cells); y::yevent_keys_destroy(d, n);
    format!("path={} delta={} keys={}", path, s, k)
}
unsafe fn c_xmltext_event(e: *const y::YXmlTextEvent, cells: &mut u64) -> String {
    let mut n = 0u32; let p = y::yxmltext_event_path(e, &mut n); let path = c_path(p, n); y::ypath_destroy(p, n);
    let mut n = 0u32; let d = y::yxmltext_event_delta(e, &mut n); let s = c_text_delta(d, n, cells); y::ytext_delta_destroy(d, n);
    let mut n = 0u32; let d = y::yxmltext_event_keys(e, &mut n); let k = c_keys(d, n, cells); y::yevent_keys_destroy(d, n);
    format!("path={} delta={} keys={}", path, s, k)
}
pub extern "C" fn text_cb(state: *mut c_void, e: *const y::YTextEvent) {
    unsafe { let st = &mut *(state as *mut ObsState); st.calls += 1; let mut cells = 0; let tgt = y::ytext_event_target(e) as *const y::Branch == st.target; let s = c_text_event(e, &mut cells); st.cells += cells; st.log.push(format!("text target_ok={} {}", tgt, s)); }
}
pub extern "C" fn array_cb(state: *mut c_void, e: *const y::YArrayEvent) {
    unsafe { let st = &mut *(state as *mut ObsState); st.calls += 1; let mut cells = 0; let tgt = y::yarray_event_target(e) as *const y::Branch == st.target; let s = c_array_event(e, &mut cells); st.cells += cells; st.log.push(format!("array target_ok={} {}", tgt, s)); }
}
pub extern "C" fn map_cb(state: *mut c_void, e: *const y::YMapEvent) {
    unsafe { let st = &mut *(state as *mut ObsState); st.calls += 1; let mut cells = 0; let tgt = y::ymap_event_target(e) as *const y::Branch == st.target; let s = c_map_event(e, &mut cells); st.cells += cells; st.log.push(format!("map target_ok={} {}", tgt, s)); }
}
pub extern "C" fn xml_cb(state: *mut c_void, e: *const y::YXmlEvent) {
    unsafe { let st = &mut *(state as *mut ObsState); st.calls += 1; let mut cells = 0; let tgt = y::yxmlelem_event_target(e) as *const y::Branch == st.target; let s = c_xml_event(e, &mut cells); st.cells += cells; st.log.push(format!("xml target_ok={} {}", tgt, s)); }
}
pub extern "C" fn deep_cb(state: *mut c_void, n: u32, evs: *const y::YEvent) {
    unsafe {
        let st = &mut *(state as *mut ObsState); st.calls += 1; let mut cells = 0; let mut v = vec![];
        for i in 0..n as usize {
            let e = &*evs.add(i);
            v.push(match e.tag {
                y::Y_TEXT => format!("{} {}", e.tag, c_text_event(&e.content.text, &mut cells)),
                y::Y_ARRAY => format!("{} {}", e.tag, c_array_event(&e.content.array, &mut cells)),
                y::Y_MAP => format!("{} {}", e.tag, c_map_event(&e.content.map, &mut cells)),
                y::Y_XML_ELEM | y::Y_XML_FRAG => format!("{} {}", e.tag, c_xml_event(&e.content.xml_elem, &mut cells)),
                y::Y_XML_TEXT => format!("{} {}", e.tag, c_xmltext_event(&e.content.xml_text, &mut cells)),
                t => format!("{} ?", t),
            });
        }
        v.sort(); // events of equal path length come in the hash order of the changed types
        st.cells += cells; st.log.push(format!("deep[{}]", v.join(" ; ")));
    }
}

// native renderings -----------------------------------------------------------------------------------------
fn r_attrs(a: &Option<Box<Attrs>>) -> String { match a { None => String::new(), Some(a) => { let mut es: Vec<String> = a.iter().map(|(k, v)| format!("{}={}", hx(k.as_bytes()), cell_of_any(v))).collect(); es.sort(); format!("{{{}}}", es.join("&")) } } }
pub fn r_text_delta(d: &[Delta]) -> String { d.iter().map(|x| match x { Delta::Inserted(v, a) => format!("+1x{}{}", cell_of_out(v), r_attrs(a)), Delta::Deleted(n) => format!("-{}", n), Delta::Retain(n, a) => format!("={}{}", n, r_attrs(a)) }).collect::<Vec<_>>().join(" ") }
pub fn r_changes(d: &[Change]) -> String { d.iter().map(|x| match x { Change::Added(vs) => format!("+[{}]", vs.iter().map(cell_of_out).collect::<Vec<_>>().join(",")), Change::Removed(n) => format!("-{}", n), Change::Retain(n) => format!("={}", n) }).collect::<Vec<_>>().join(" ") }
pub fn r_keys(k: &HashMap<Arc<str>, EntryChange>) -> String {
    let mut es: Vec<String> = k.iter().map(|(k, c)| match c { EntryChange::Inserted(n) => format!("{}:A(_>{})", hx(k.as_bytes()), cell_of_out(n)), EntryChange::Updated(o, n) => format!("{}:U({}>{})", hx(k.as_bytes()), cell_of_out(o), cell_of_out(n)), EntryChange::Removed(o) => format!("{}:D({}>_)", hx(k.as_bytes()), cell_of_out(o)) }).collect();
    es.sort(); es.join(" ")
}
pub fn r_path(p: &VecDeque<PathSegment>) -> String { p.iter().map(|s| match s { PathSegment::Key(k) => format!("/k{}", hx(k.as_bytes())), PathSegment::Index(i) => format!("/i{}", i) }).collect() }
pub fn r_deep(txn: &yrs::TransactionMut, evs: &yrs::types::Events) -> String {
    let mut v = vec![];
    for e in evs.iter() {
        v.push(match e {
            Event::Text(e) => format!("{} path={} delta={}", y::Y_TEXT, r_path(&e.path()), r_text_delta(e.delta(txn))),
            Event::Array(e) => format!("{} path={} delta={}", y::Y_ARRAY, r_path(&e.path()), r_changes(e.delta(txn))),
            Event::Map(e) => format!("{} path={} keys={}", y::Y_MAP, r_path(&e.path()), r_keys(e.keys(txn))),
            Event::XmlFragment(e) => format!("{} path={} delta={} keys={}", if let XmlOut::Fragment(_) = e.target() { y::Y_XML_FRAG } else { y::Y_XML_ELEM }, r_path(&e.path()), r_changes(e.delta(txn)), r_keys(e.keys(txn))),
            Event::XmlText(e) => format!("{} path={} delta={} keys={}", y::Y_XML_TEXT, r_path(&e.path()), r_text_delta(e.delta(txn)), r_keys(e.keys(txn))),
            Event::Weak(_) => format!("{} ?", y::Y_WEAK_LINK),
        });
    }
    v.sort();
    format!("deep[{}]", v.join(" ; "))
}
pub type Log = std::sync::Arc<std::sync::Mutex<Vec<String>>>;
