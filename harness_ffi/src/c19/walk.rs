//! Reading doc C through the C getters and comparing with (a) the Rust API on the same doc, (b) the Rust API on the
//! twin, (c) the Coq model for json-like cells; plus acquire/destroy leak probes.
use super::ops::xml_out;
use super::vals::*;
use super::Fail;
use crate::model::Model;
use crate::report::{catch, Report};
use crate::yffi as y;
use serde_json::json;
use std::collections::{BTreeMap, HashMap};
use std::ffi::{CStr, CString};
use std::panic::AssertUnwindSafe;
use yrs::types::text::{Diff, YChange};
use yrs::types::ToJson;
use yrs::{Array, GetString, Map, Out, ReadTxn, Text, Xml, XmlFragment};

pub struct ModelBox { m: Option<Model>, dead: bool, cache: HashMap<String, String> }
impl ModelBox {
    pub fn new() -> Self { ModelBox { m: None, dead: false, cache: HashMap::new() } }
    /// `Some(cell)` when the model answered `ok <cell>`; None when it cannot answer (no executable, no CELL command, an error)
    pub fn cell(&mut self, jany: &str, rep: &mut Report) -> Option<String> {
        if let Some(c) = self.cache.get(jany) { rep.count("model_cache_hits"); return Some(c.clone()); }
        if self.dead { rep.count("model_unavailable"); return None; }
        if self.m.is_none() {
            let exe = std::env::var("YV_MODEL_EXE").unwrap_or_else(|_| "/verif/.build/runner/model.exe".to_string());
            if !std::path::Path::new(&exe).exists() { self.dead = true; rep.count("model_unavailable"); return None; }
            match catch(AssertUnwindSafe(Model::spawn)) { Ok(m) => self.m = Some(m), Err(_) => { self.dead = true; rep.count("model_unavailable"); return None; } }
        }
        let m = self.m.as_mut().unwrap();
        let ans = match catch(AssertUnwindSafe(|| m.ask(&format!("CELL {}", jany)))) { Ok(a) => a, Err(_) => { self.dead = true; self.m = None; rep.count("model_unavailable"); return None; } };
        if let Some(c) = ans.strip_prefix("ok ") { rep.count("model_asked"); self.cache.insert(jany.to_string(), c.to_string()); return Some(c.to_string()); }
        // `err badcmd`: the model has no CELL command (yet); an empty answer: the process went away
        if ans.starts_with("err badcmd") || ans.is_empty() { self.dead = true; }
        rep.count("model_unavailable");
        None
    }
}

pub struct Cx<'a> { pub rep: &'a mut Report, pub model: &'a mut ModelBox, pub cnt: BTreeMap<String, u64> }
impl<'a> Cx<'a> {
    pub fn add(&mut self, k: &str, n: u64) { *self.cnt.entry(k.to_string()).or_insert(0) += n; }
    pub fn used(&mut self, f: &str) { *self.cnt.entry(format!("fn:{}", f)).or_insert(0) += 1; }
}
macro_rules! fail { ($class:expr, $($k:literal : $v:expr),* $(,)?) => { return Err(json!({"class": $class, $($k: $v),*})) } }
/// an acquire-and-destroy pair must leave the allocation counters of this thread where they were
macro_rules! probe { ($cx:expr, $name:expr, $body:block) => {{ let b = crate::live(); $body; let a = crate::live(); $cx.add("leak_probes", 1); if a != b { return Err(json!({"class": "c-api-leak", "function": $name, "bytes": a.0 - b.0, "blocks": a.1 - b.1})); } }} }

fn json_eq(a: &Option<String>, b: &Option<String>) -> bool {
    match (a, b) { (None, None) => true, (Some(x), Some(y)) => match (serde_json::from_str::<serde_json::Value>(x), serde_json::from_str::<serde_json::Value>(y)) { (Ok(p), Ok(q)) => p == q, _ => x == y }, _ => false }
}
fn out_json<T: ReadTxn>(o: &Out, txn: &T) -> Option<String> { serde_json::to_string(&o.to_json(txn)).ok() }
fn sorted_bytes(s: &str) -> Vec<u8> { let mut v = s.as_bytes().to_vec(); v.sort(); v }

/// compare one C cell with the Rust values at the same position (same doc and twin) and with the model
pub fn check_cell(cx: &mut Cx, c_cell: &str, crs: Option<&Out>, r: Option<&Out>, at: &str) -> Result<(), Fail> {
    let ec = crs.map(cell_of_out).unwrap_or_else(|| "NULL".into()); let er = r.map(cell_of_out).unwrap_or_else(|| "NULL".into());
    cx.add("cells_compared", 1);
    if c_cell != ec { fail!("cell-differs-from-rust-getter-on-same-doc", "at": at, "c": c_cell, "rust": ec); }
    if c_cell != er { fail!("cell-differs-from-twin", "at": at, "c": c_cell, "twin": er); }
    if let Some(Out::Any(a)) = r {
        let j = jany_of_any(a);
        if let Some(m) = cx.model.cell(&j, cx.rep) { cx.add("cells_checked_against_model", 1); if m != c_cell { cx.rep.disagree(json!({"property": "C19", "class": "cell-differs-from-model", "at": at, "jany": j, "c": c_cell, "model": m})); } }
    }
    Ok(())
}
fn render_chunks_r(d: &[Diff<YChange>]) -> String {
    d.iter().map(|c| { let at = match &c.attributes { None => String::new(), Some(a) => { let mut es: Vec<String> = a.iter().map(|(k, v)| format!("{}={}", hx(k.as_bytes()), cell_of_any(v))).collect(); es.sort(); format!("{{{}}}", es.join("&")) } }; format!("<{}{}>", cell_of_out(&c.insert), at) }).collect()
}
unsafe fn render_chunks_c(cx: &mut Cx, b: *const y::Branch, ct: *const y::Transaction) -> String {
    let mut n = 0u32; let p = y::ytext_chunks(b, ct, &mut n); let mut cells = 0u64; let mut s = String::new();
    for i in 0..n as usize {
        let ch = &*p.add(i);
        let at = if ch.fmt.is_null() { String::new() } else { let mut es: Vec<String> = (0..ch.fmt_len as usize).map(|k| { let e = &*ch.fmt.add(k); format!("{}={}", hx(CStr::from_ptr(e.key).to_bytes()), cell_of_c(e.value, &mut cells)) }).collect(); es.sort(); format!("{{{}}}", es.join("&")) };
        s.push_str(&format!("<{}{}>", cell_of_c(&ch.data, &mut cells), at));
    }
    y::ychunks_destroy(p, n);
    cx.add("chunk_cells", cells); cx.used("ytext_chunks");
    s
}
unsafe fn attrs_c(cx: &mut Cx, it: *mut y::Attributes) -> Vec<(String, String)> {
    let mut v = vec![]; let mut cells = 0;
    loop { let a = y::yxmlattr_iter_next(it); if a.is_null() { break; } v.push((String::from_utf8_lossy(CStr::from_ptr((*a).name).to_bytes()).into_owned(), cell_of_c((*a).value, &mut cells))); y::yxmlattr_destroy(a); }
    y::yxmlattr_iter_destroy(it); v.sort(); cx.add("attr_cells", cells); v
}
fn attrs_r<'a, I: Iterator<Item = (&'a str, Out)>>(it: I) -> Vec<(String, String)> { let mut v: Vec<(String, String)> = it.map(|(k, o)| (k.to_string(), cell_of_out(&o))).collect(); v.sort(); v }

/// Walk one shared type: `c` through the C getters (transaction `ct`), `crs` = the same type through the Rust API on doc C, `r` = the twin's.
pub unsafe fn walk<A: ReadTxn, B: ReadTxn>(cx: &mut Cx, ct: *mut y::Transaction, c: *mut y::Branch, crs: &Out, ctx: &A, r: &Out, rtx: &B, at: &str, depth: u32) -> Result<(), Fail> {
    if depth > 8 { return Ok(()); }
    let k = y::ytype_kind(c);
    if k != kind_of_out(r) || k != kind_of_out(crs) { fail!("type-kind-differs", "at": at, "ytype_kind": k, "rust_same_doc": kind_of_out(crs), "twin": kind_of_out(r)); }
    if branch_of_out(crs) != c as *const y::Branch { fail!("branch-pointer-differs", "at": at, "detail": "C getter and Rust getter on the same doc return different branches"); }
    if y::ybranch_alive(c) != y::Y_TRUE { fail!("branch-not-alive", "at": at); }
    { let id = y::ybranch_id(c); let back = y::ybranch_get(&id, ct); if back != c { fail!("branch-id-roundtrip-differs", "at": at); } cx.used("ybranch_id"); cx.used("ybranch_get"); }
    cx.add("types_walked", 1);
    // ybranch_json vs the Rust renderings
    {
        let cj = take_string(y::ybranch_json(c, ct)); cx.used("ybranch_json");
        let rj = |o: &Out, same: bool| -> Option<String> { match o {
            Out::YArray(a) => if same { serde_json::to_string(&a.to_json(ctx)).ok() } else { serde_json::to_string(&a.to_json(rtx)).ok() },
            Out::YMap(a) => if same { serde_json::to_string(&a.to_json(ctx)).ok() } else { serde_json::to_string(&a.to_json(rtx)).ok() },
            Out::YText(a) => serde_json::to_string(&yrs::Any::from(if same { a.get_string(ctx) } else { a.get_string(rtx) })).ok(),
            Out::YXmlText(a) => serde_json::to_string(&yrs::Any::from(if same { a.get_string(ctx) } else { a.get_string(rtx) })).ok(),
            Out::YXmlElement(a) => serde_json::to_string(&yrs::Any::from(if same { a.get_string(ctx) } else { a.get_string(rtx) })).ok(),
            Out::YXmlFragment(a) => serde_json::to_string(&yrs::Any::from(if same { a.get_string(ctx) } else { a.get_string(rtx) })).ok(),
            _ => None } };
        let same = rj(crs, true);
        if !json_eq(&cj, &same) { fail!("branch-json-differs", "at": at, "c": cj, "rust_same_doc": same); }
        if !has_xml(Some(r), rtx) { let tw = rj(r, false); if !json_eq(&cj, &tw) { fail!("branch-json-differs", "at": at, "c": cj, "twin": tw); } }
        probe!(cx, "ybranch_json", { y::ystring_destroy(y::ybranch_json(c, ct)); });
    }
    match (r, crs) {
        (Out::YText(rt), Out::YText(st)) => {
            let s = take_string(y::ytext_string(c, ct)); cx.used("ytext_string");
            let (ss, rs) = (st.get_string(ctx), rt.get_string(rtx));
            if s.as_deref() != Some(ss.as_str()) || s.as_deref() != Some(rs.as_str()) { fail!("text-string-differs", "at": at, "c": s, "rust_same_doc": ss, "twin": rs); }
            let l = y::ytext_len(c, ct); cx.used("ytext_len");
            if l != st.len(ctx) || l != rt.len(rtx) { fail!("text-len-differs", "at": at, "c": l, "rust_same_doc": st.len(ctx), "twin": rt.len(rtx)); }
            let cc = render_chunks_c(cx, c, ct); let (sc, rc) = (render_chunks_r(&st.diff(ctx, YChange::identity)), render_chunks_r(&rt.diff(rtx, YChange::identity)));
            if cc != sc || cc != rc { fail!("text-chunks-differ", "at": at, "c": cc, "rust_same_doc": sc, "twin": rc); }
            for d in rt.diff(rtx, YChange::identity) { if let Out::Any(a) = &d.insert { let j = jany_of_any(a); if let Some(m) = cx.model.cell(&j, cx.rep) { cx.add("cells_checked_against_model", 1); if m != cell_of_any(a) { cx.rep.disagree(json!({"property": "C19", "class": "cell-differs-from-model", "at": at, "jany": j, "c": cell_of_any(a), "model": m})); } } } }
            cx.add("text_bytes_compared", rs.len() as u64);
            probe!(cx, "ytext_string", { y::ystring_destroy(y::ytext_string(c, ct)); });
            probe!(cx, "ytext_chunks", { let mut n = 0u32; let p = y::ytext_chunks(c, ct, &mut n); y::ychunks_destroy(p, n); });
        }
        (Out::YXmlText(rt), Out::YXmlText(st)) => {
            let s = take_string(y::yxmltext_string(c, ct)); cx.used("yxmltext_string");
            let (ss, rs) = (st.get_string(ctx), rt.get_string(rtx));
            // formatting attributes with map values are rendered in HashMap order: exact against the same doc, as a multiset of bytes against the twin (chunks are compared canonically below)
            if s.as_deref() != Some(ss.as_str()) || sorted_bytes(&ss) != sorted_bytes(&rs) { fail!("xmltext-string-differs", "at": at, "c": s, "rust_same_doc": ss, "twin": rs); }
            let l = y::yxmltext_len(c, ct); cx.used("yxmltext_len");
            if l != st.len(ctx) || l != rt.len(rtx) { fail!("xmltext-len-differs", "at": at, "c": l, "rust_same_doc": st.len(ctx), "twin": rt.len(rtx)); }
            let cc = render_chunks_c(cx, c, ct); let (sc, rc) = (render_chunks_r(&st.diff(ctx, YChange::identity)), render_chunks_r(&rt.diff(rtx, YChange::identity)));
            if cc != sc || cc != rc { fail!("xmltext-chunks-differ", "at": at, "c": cc, "rust_same_doc": sc, "twin": rc); }
            let ca = attrs_c(cx, y::yxmltext_attr_iter(c, ct)); cx.used("yxmltext_attr_iter");
            let (sa, ra) = (attrs_r(st.attributes(ctx)), attrs_r(rt.attributes(rtx)));
            if ca != sa || ca != ra { fail!("xml-attributes-differ", "at": at, "c": format!("{:?}", ca), "rust_same_doc": format!("{:?}", sa), "twin": format!("{:?}", ra)); }
            let mut names: Vec<String> = ra.iter().map(|(k, _)| k.clone()).collect(); names.push("absent-attr".into());
            for n in names { let cn = CString::new(n.as_str()).unwrap(); let o = y::yxmltext_get_attr(c, ct, cn.as_ptr()); cx.used("yxmltext_get_attr"); let mut cells = 0; let cc = if o.is_null() { "NULL".into() } else { cell_of_c(o, &mut cells) }; y::youtput_destroy(o); check_cell(cx, &cc, st.get_attribute(ctx, &n).as_ref(), rt.get_attribute(rtx, &n).as_ref(), &format!("{}@{}", at, n))?; }
            probe!(cx, "yxmltext_string", { y::ystring_destroy(y::yxmltext_string(c, ct)); });
            probe!(cx, "yxmltext_attr_iter", { let it = y::yxmltext_attr_iter(c, ct); loop { let a = y::yxmlattr_iter_next(it); if a.is_null() { break; } y::yxmlattr_destroy(a); } y::yxmlattr_iter_destroy(it); });
        }
        (Out::YArray(ra), Out::YArray(sa)) => {
            let l = y::yarray_len(c); cx.used("yarray_len");
            if l != sa.len(ctx) || l != ra.len(rtx) { fail!("array-len-differs", "at": at, "c": l, "rust_same_doc": sa.len(ctx), "twin": ra.len(rtx)); }
            let mut by_get = vec![];
            for i in 0..=l {
                let here = format!("{}[{}]", at, i);
                let cj = take_string(y::yarray_get_json(c, ct, i)); cx.used("yarray_get_json");
                let (so, ro) = (sa.get(ctx, i), ra.get(rtx, i));
                let (sj, rj) = (so.as_ref().and_then(|o| out_json(o, ctx)), ro.as_ref().and_then(|o| out_json(o, rtx)));
                if !json_eq(&cj, &sj) || !(json_eq(&cj, &rj) || has_xml(ro.as_ref(), rtx)) { fail!("array-get-json-differs", "at": here, "c": cj, "rust_same_doc": sj, "twin": rj); }
                let o = y::yarray_get(c, ct, i); cx.used("yarray_get");
                let mut cells = 0; let cc = if o.is_null() { "NULL".to_string() } else { cell_of_c(o, &mut cells) }; let nb = if o.is_null() { std::ptr::null_mut() } else { branch_of_c(o) };
                y::youtput_destroy(o);
                check_cell(cx, &cc, so.as_ref(), ro.as_ref(), &here)?;
                if i < l { by_get.push(cc); }
                if !nb.is_null() { walk(cx, ct, nb, so.as_ref().unwrap(), ctx, ro.as_ref().unwrap(), rtx, &here, depth + 1)?; }
            }
            let it = y::yarray_iter(c, ct); cx.used("yarray_iter"); let mut by_iter = vec![]; let mut cells = 0;
            loop { let o = y::yarray_iter_next(it); if o.is_null() { break; } by_iter.push(cell_of_c(o, &mut cells)); y::youtput_destroy(o); if by_iter.len() > l as usize + 4 { break; } }
            y::yarray_iter_destroy(it);
            if by_iter != by_get { fail!("array-iter-differs", "at": at, "by_iter": by_iter, "by_get": by_get); }
            cx.add("cells_compared", by_iter.len() as u64);
            probe!(cx, "yarray_get", { for i in 0..l { y::youtput_destroy(y::yarray_get(c, ct, i)); } });
            probe!(cx, "yarray_get_json", { for i in 0..l { y::ystring_destroy(y::yarray_get_json(c, ct, i)); } });
            probe!(cx, "yarray_iter", { let it = y::yarray_iter(c, ct); loop { let o = y::yarray_iter_next(it); if o.is_null() { break; } y::youtput_destroy(o); } y::yarray_iter_destroy(it); });
        }
        (Out::YMap(rm), Out::YMap(sm)) => {
            let l = y::ymap_len(c, ct); cx.used("ymap_len");
            if l != sm.len(ctx) || l != rm.len(rtx) { fail!("map-len-differs", "at": at, "c": l, "rust_same_doc": sm.len(ctx), "twin": rm.len(rtx)); }
            let mut keys: Vec<String> = rm.keys(rtx).map(|k| k.to_string()).collect(); keys.sort();
            let mut by_get = vec![];
            let mut probe_keys = keys.clone(); probe_keys.push("zz-absent".into());
            for key in &probe_keys {
                let here = format!("{}.{}", at, key); let ck = CString::new(key.as_str()).unwrap();
                let cj = take_string(y::ymap_get_json(c, ct, ck.as_ptr())); cx.used("ymap_get_json");
                let (so, ro) = (sm.get(ctx, key), rm.get(rtx, key));
                let (sj, rj) = (so.as_ref().and_then(|o| out_json(o, ctx)), ro.as_ref().and_then(|o| out_json(o, rtx)));
                if !json_eq(&cj, &sj) || !(json_eq(&cj, &rj) || has_xml(ro.as_ref(), rtx)) { fail!("map-get-json-differs", "at": here, "c": cj, "rust_same_doc": sj, "twin": rj); }
                let o = y::ymap_get(c, ct, ck.as_ptr()); cx.used("ymap_get");
                let mut cells = 0; let cc = if o.is_null() { "NULL".to_string() } else { cell_of_c(o, &mut cells) }; let nb = if o.is_null() { std::ptr::null_mut() } else { branch_of_c(o) };
                y::youtput_destroy(o);
                check_cell(cx, &cc, so.as_ref(), ro.as_ref(), &here)?;
                if ro.is_some() { by_get.push((key.clone(), cc)); }
                if !nb.is_null() { walk(cx, ct, nb, so.as_ref().unwrap(), ctx, ro.as_ref().unwrap(), rtx, &here, depth + 1)?; }
            }
            let it = y::ymap_iter(c, ct); cx.used("ymap_iter"); let mut by_iter = vec![]; let mut cells = 0;
            loop { let e = y::ymap_iter_next(it); if e.is_null() { break; } by_iter.push((String::from_utf8_lossy(CStr::from_ptr((*e).key).to_bytes()).into_owned(), cell_of_c((*e).value, &mut cells))); y::ymap_entry_destroy(e); if by_iter.len() > l as usize + 4 { break; } }
            y::ymap_iter_destroy(it); by_iter.sort();
            if by_iter != by_get { fail!("map-iter-differs", "at": at, "by_iter": format!("{:?}", by_iter), "by_get": format!("{:?}", by_get)); }
            cx.add("cells_compared", by_iter.len() as u64);
            probe!(cx, "ymap_get", { for k in &keys { let ck = CString::new(k.as_str()).unwrap(); y::youtput_destroy(y::ymap_get(c, ct, ck.as_ptr())); y::ystring_destroy(y::ymap_get_json(c, ct, ck.as_ptr())); } });
            probe!(cx, "ymap_iter", { let it = y::ymap_iter(c, ct); loop { let e = y::ymap_iter_next(it); if e.is_null() { break; } y::ymap_entry_destroy(e); } y::ymap_iter_destroy(it); });
        }
        (Out::YXmlFragment(_), Out::YXmlFragment(_)) | (Out::YXmlElement(_), Out::YXmlElement(_)) => {
            // yxmlelem_string on a fragment (what yxmlfragment() returns) aborts: XmlElementRef::get_string needs a tag (abort probe "xmlfragment-string")
            let is_elem = matches!(r, Out::YXmlElement(_));
            let (ss, rs) = match (crs, r) { (Out::YXmlFragment(a), Out::YXmlFragment(b)) => (a.get_string(ctx), b.get_string(rtx)), (Out::YXmlElement(a), Out::YXmlElement(b)) => (a.get_string(ctx), b.get_string(rtx)), _ => unreachable!() };
            // attribute order follows a HashMap: byte for byte against the same doc, as a multiset of bytes against the twin (children and attributes are compared one by one below)
            if is_elem {
                let s = take_string(y::yxmlelem_string(c, ct)); cx.used("yxmlelem_string");
                if s.as_deref() != Some(ss.as_str()) { fail!("xml-string-differs", "at": at, "c": s, "rust_same_doc": ss); }
                probe!(cx, "yxmlelem_string", { y::ystring_destroy(y::yxmlelem_string(c, ct)); });
            }
            if sorted_bytes(&ss) != sorted_bytes(&rs) { fail!("xml-string-differs", "at": at, "rust_same_doc": ss, "twin": rs); }
            let tag = take_string(y::yxmlelem_tag(c)); cx.used("yxmlelem_tag");
            match r { Out::YXmlElement(e) => if tag.as_deref() != Some(&*e.tag()) { fail!("xml-tag-differs", "at": at, "c": tag, "twin": e.tag().to_string()); }, _ => { if tag.is_none() { cx.add("xml_fragment_tag_is_null", 1); } else { cx.add("xml_fragment_tag_non_null", 1); } } }
            let (sl, rl) = match (crs, r) { (Out::YXmlFragment(a), Out::YXmlFragment(b)) => (a.len(ctx), b.len(rtx)), (Out::YXmlElement(a), Out::YXmlElement(b)) => (a.len(ctx), b.len(rtx)), _ => unreachable!() };
            let l = y::yxmlelem_child_len(c, ct); cx.used("yxmlelem_child_len");
            if l != sl || l != rl { fail!("xml-child-len-differs", "at": at, "c": l, "rust_same_doc": sl, "twin": rl); }
            let child = |o: &Out, same: bool, i: u32| -> Option<Out> { match o { Out::YXmlFragment(x) => if same { x.get(ctx, i) } else { x.get(rtx, i) }, Out::YXmlElement(x) => if same { x.get(ctx, i) } else { x.get(rtx, i) }, _ => None }.map(xml_out) };
            let mut kids: Vec<(*mut y::Branch, Out, Out)> = vec![];
            for i in 0..=l {
                let here = format!("{}<{}>", at, i);
                let o = y::yxmlelem_get(c, ct, i) as *mut y::YOutput; cx.used("yxmlelem_get");
                let mut cells = 0; let cc = if o.is_null() { "NULL".to_string() } else { cell_of_c(o, &mut cells) }; let nb = if o.is_null() { std::ptr::null_mut() } else { branch_of_c(o) };
                y::youtput_destroy(o);
                let (so, ro) = (child(crs, true, i), child(r, false, i));
                check_cell(cx, &cc, so.as_ref(), ro.as_ref(), &here)?;
                if !nb.is_null() { kids.push((nb, so.unwrap(), ro.unwrap())); }
            }
            // first child, siblings, parent
            {
                let o = y::yxmlelem_first_child(c); cx.used("yxmlelem_first_child");
                let fb = if o.is_null() { std::ptr::null_mut() } else { branch_of_c(o) }; y::youtput_destroy(o);
                let exp = kids.first().map(|k| k.0).unwrap_or(std::ptr::null_mut());
                let rf = match r { Out::YXmlFragment(x) => x.first_child(), Out::YXmlElement(x) => x.first_child(), _ => None };
                if fb != exp || rf.is_some() != !exp.is_null() { fail!("xml-first-child-differs", "at": at, "c_is_null": fb.is_null(), "twin_has": rf.is_some(), "children": kids.len()); }
            }
            for (i, (kb, _, ro)) in kids.iter().enumerate() {
                let par = y::yxmlelem_parent(*kb); cx.used("yxmlelem_parent");
                if par != c { fail!("xml-parent-differs", "at": format!("{}<{}>", at, i)); }
                let o = y::yxml_next_sibling(*kb, ct); cx.used("yxml_next_sibling"); let nb = if o.is_null() { std::ptr::null_mut() } else { branch_of_c(o) }; y::youtput_destroy(o);
                let o = y::yxml_prev_sibling(*kb, ct); cx.used("yxml_prev_sibling"); let pb = if o.is_null() { std::ptr::null_mut() } else { branch_of_c(o) }; y::youtput_destroy(o);
                let (rn, rp) = match ro { Out::YXmlElement(e) => (e.siblings(rtx).next().is_some(), e.siblings(rtx).next_back().is_some()), Out::YXmlText(e) => (e.siblings(rtx).next().is_some(), e.siblings(rtx).next_back().is_some()), _ => (false, false) };
                let en = kids.get(i + 1).map(|k| k.0).unwrap_or(std::ptr::null_mut()); let ep = if i > 0 { kids[i - 1].0 } else { std::ptr::null_mut() };
                if rn != !nb.is_null() || rp != !pb.is_null() { fail!("xml-sibling-differs", "at": format!("{}<{}>", at, i), "c_next_null": nb.is_null(), "twin_next": rn, "c_prev_null": pb.is_null(), "twin_prev": rp); }
                if nb != en || pb != ep { cx.add("xml_sibling_is_not_adjacent_child", 1); }
            }
            // tree walker vs successors
            {
                let it = y::yxmlelem_tree_walker(c, ct); cx.used("yxmlelem_tree_walker"); let mut cw = vec![]; let mut cells = 0;
                loop { let o = y::yxmlelem_tree_walker_next(it); if o.is_null() { break; } cw.push((cell_of_c(o, &mut cells), branch_of_c(o) as *const y::Branch)); y::youtput_destroy(o); if cw.len() > 500 { break; } }
                y::yxmlelem_tree_walker_destroy(it);
                let (sw, rw): (Vec<Out>, Vec<Out>) = match (crs, r) { (Out::YXmlFragment(a), Out::YXmlFragment(b)) => (a.successors(ctx).map(xml_out).collect(), b.successors(rtx).map(xml_out).collect()), (Out::YXmlElement(a), Out::YXmlElement(b)) => (a.successors(ctx).map(xml_out).collect(), b.successors(rtx).map(xml_out).collect()), _ => unreachable!() };
                let same_ptrs = cw.len() == sw.len() && cw.iter().zip(sw.iter()).all(|(a, b)| a.1 == branch_of_out(b));
                let tw: Vec<String> = rw.iter().map(cell_of_out).collect(); let cwc: Vec<String> = cw.iter().map(|x| x.0.clone()).collect();
                if !same_ptrs || cwc != tw { fail!("xml-tree-walker-differs", "at": at, "c": cwc, "twin": tw, "same_nodes_as_rust_on_same_doc": same_ptrs); }
                probe!(cx, "yxmlelem_tree_walker", { let it = y::yxmlelem_tree_walker(c, ct); loop { let o = y::yxmlelem_tree_walker_next(it); if o.is_null() { break; } y::youtput_destroy(o); } y::yxmlelem_tree_walker_destroy(it); });
            }
            if let (Out::YXmlElement(re), Out::YXmlElement(se)) = (r, crs) {
                let ca = attrs_c(cx, y::yxmlelem_attr_iter(c, ct)); cx.used("yxmlelem_attr_iter");
                let (sa, ra) = (attrs_r(se.attributes(ctx)), attrs_r(re.attributes(rtx)));
                if ca != sa || ca != ra { fail!("xml-attributes-differ", "at": at, "c": format!("{:?}", ca), "rust_same_doc": format!("{:?}", sa), "twin": format!("{:?}", ra)); }
                let mut names: Vec<String> = ra.iter().map(|(k, _)| k.clone()).collect(); names.push("absent-attr".into());
                for n in names { let cn = CString::new(n.as_str()).unwrap(); let o = y::yxmlelem_get_attr(c, ct, cn.as_ptr()); cx.used("yxmlelem_get_attr"); let mut cells = 0; let cc = if o.is_null() { "NULL".into() } else { cell_of_c(o, &mut cells) }; y::youtput_destroy(o); check_cell(cx, &cc, se.get_attribute(ctx, &n).as_ref(), re.get_attribute(rtx, &n).as_ref(), &format!("{}@{}", at, n))?; }
                probe!(cx, "yxmlelem_attr_iter", { let it = y::yxmlelem_attr_iter(c, ct); loop { let a = y::yxmlattr_iter_next(it); if a.is_null() { break; } y::yxmlattr_destroy(a); } y::yxmlattr_iter_destroy(it); });
            }
            probe!(cx, "yxmlelem_tag", { y::ystring_destroy(y::yxmlelem_tag(c)); });
            for (i, (kb, so, ro)) in kids.iter().enumerate() { walk(cx, ct, *kb, so, ctx, ro, rtx, &format!("{}<{}>", at, i), depth + 1)?; }
        }
        _ => fail!("type-kind-differs", "at": at, "detail": "Rust views of doc C and twin are of different kinds"),
    }
    Ok(())
}
/// XML renderings inside a to_json value carry attributes in HashMap order: such values are compared on the same doc only
fn has_xml<T: ReadTxn>(o: Option<&Out>, txn: &T) -> bool {
    match o {
        Some(Out::YXmlElement(_)) | Some(Out::YXmlFragment(_)) | Some(Out::YXmlText(_)) => true,
        Some(Out::YArray(a)) => a.iter(txn).any(|v| has_xml(Some(&v), txn)),
        Some(Out::YMap(m)) => m.iter(txn).any(|(_, v)| has_xml(Some(&v), txn)),
        _ => false,
    }
}
