//! Document-level observers (update v1 / v2 payloads, after-transaction summaries), undo manager observers and
//! JSON path queries: C callbacks against the native subscriptions of the twin.
use super::vals::*;
use crate::yffi as y;
use std::ffi::{c_char, c_void};
use yrs::{IdSet, StateVector};

#[derive(Default)]
pub struct DocObs { pub v1: Vec<Vec<u8>>, pub v2: Vec<Vec<u8>>, pub after: Vec<String>, pub undo_added: Vec<String>, pub undo_popped: Vec<String> }
pub extern "C" fn upd_v1_cb(state: *mut c_void, len: u32, data: *const c_char) { unsafe { (&mut *(state as *mut DocObs)).v1.push(std::slice::from_raw_parts(data as *const u8, len as usize).to_vec()); } }
pub extern "C" fn upd_v2_cb(state: *mut c_void, len: u32, data: *const c_char) { unsafe { (&mut *(state as *mut DocObs)).v2.push(std::slice::from_raw_parts(data as *const u8, len as usize).to_vec()); } }
unsafe fn c_sv(s: &y::YStateVector) -> String {
    let mut v: Vec<(u64, u32)> = (0..s.entries_count as usize).map(|i| (*s.client_ids.add(i), *s.clocks.add(i))).collect(); v.sort();
    v.iter().map(|(c, k)| format!("{}:{}", c, k)).collect::<Vec<_>>().join(",")
}
unsafe fn c_ids(s: &y::YIdSet) -> String {
    let mut v: Vec<(u64, String)> = (0..s.entries_count as usize).map(|i| { let seq = &*s.ranges.add(i); (*s.client_ids.add(i), (0..seq.len as usize).map(|k| { let r = &*seq.seq.add(k); format!("{}-{}", r.start, r.end) }).collect::<Vec<_>>().join("+")) }).collect(); v.sort();
    v.iter().map(|(c, r)| format!("{}[{}]", c, r)).collect::<Vec<_>>().join(",")
}
pub fn r_sv(s: &StateVector) -> String { let mut v: Vec<(u64, u32)> = s.iter().map(|(c, k)| (c.get(), *k)).collect(); v.sort(); v.iter().map(|(c, k)| format!("{}:{}", c, k)).collect::<Vec<_>>().join(",") }
pub fn r_ids(s: &IdSet) -> String {
    let mut v: Vec<(u64, String)> = s.iter().map(|(c, r)| (c.get(), r.iter().map(|x| format!("{}-{}", x.start, x.end)).collect::<Vec<_>>().join("+"))).collect(); v.sort();
    v.iter().map(|(c, r)| format!("{}[{}]", c, r)).collect::<Vec<_>>().join(",")
}
pub extern "C" fn after_cb(state: *mut c_void, e: *mut y::YAfterTransactionEvent) {
    unsafe { let e = &*e; (&mut *(state as *mut DocObs)).after.push(format!("before={} after={} deleted={}", c_sv(&e.before_state), c_sv(&e.after_state), c_ids(&e.delete_set))); }
}
unsafe fn undo_event(e: *const y::YUndoEvent) -> String {
    let e = &*e; let origin = if e.origin.is_null() { "none".to_string() } else { hx(std::slice::from_raw_parts(e.origin as *const u8, e.origin_len as usize)) };
    format!("kind={} origin={} meta_null={}", e.kind, origin, e.meta.is_null())
}
pub extern "C" fn undo_added_cb(state: *mut c_void, e: *const y::YUndoEvent) { unsafe { (&mut *(state as *mut DocObs)).undo_added.push(undo_event(e)); } }
pub extern "C" fn undo_popped_cb(state: *mut c_void, e: *const y::YUndoEvent) { unsafe { (&mut *(state as *mut DocObs)).undo_popped.push(undo_event(e)); } }
