//! Values crossing the boundary: the generator's value language (`J` json-like, `Val` json or shared-type prelim),
//! their construction as `YInput` cells through the `yinput_*` functions (memory owned by an `Arena`),
//! their native counterparts (`Any`, `In`), and the canonical renderings of cells.
use crate::yffi as y;
use std::collections::HashMap;
use std::ffi::{c_char, CStr, CString};
use std::sync::Arc;
use yrs::{Any, ArrayPrelim, In, MapPrelim, Out, TextPrelim, XmlElementPrelim, XmlTextPrelim};

pub fn hx(b: &[u8]) -> String { let mut s = String::with_capacity(b.len() * 2); for x in b { s.push_str(&format!("{:02x}", x)); } s }

#[derive(Clone, Debug)]
pub enum J { Null, Undef, Bool(bool), Num(f64), Int(i64), Str(String), Buf(Vec<u8>), Arr(Vec<J>), Map(Vec<(String, J)>), Raw(String) }

#[derive(Clone, Debug)]
pub enum Val { J(J), YArr(Vec<Val>), YMap(Vec<(String, Val)>), YText(String), YXmlElem(String), YXmlText(String) }

impl J {
    pub fn show(&self) -> String {
        match self {
            J::Null => "null".into(), J::Undef => "undefined".into(), J::Bool(b) => b.to_string(), J::Num(f) => format!("{:?}f", f), J::Int(i) => format!("{}L", i),
            J::Str(s) => format!("{:?}", s), J::Buf(b) => format!("bin:{}", hx(b)), J::Arr(v) => format!("[{}]", v.iter().map(|x| x.show()).collect::<Vec<_>>().join(",")),
            J::Map(m) => format!("{{{}}}", m.iter().map(|(k, v)| format!("{:?}:{}", k, v.show())).collect::<Vec<_>>().join(",")), J::Raw(s) => format!("json({})", s),
        }
    }
    pub fn to_any(&self) -> Any {
        match self {
            J::Null => Any::Null, J::Undef => Any::Undefined, J::Bool(b) => Any::Bool(*b), J::Num(f) => Any::Number(*f), J::Int(i) => Any::BigInt(*i),
            J::Str(s) => Any::String(s.as_str().into()), J::Buf(b) => Any::Buffer(b.clone().into()),
            J::Arr(v) => Any::Array(v.iter().map(|x| x.to_any()).collect::<Vec<_>>().into()),
            J::Map(m) => { let mut h = HashMap::new(); for (k, v) in m { h.insert(k.clone(), v.to_any()); } Any::Map(Arc::new(h)) }
            J::Raw(s) => Any::from_json(s).expect("generator produces valid JSON"),
        }
    }
}
impl Val {
    pub fn show(&self) -> String {
        match self {
            Val::J(j) => j.show(), Val::YArr(v) => format!("YArray[{}]", v.iter().map(|x| x.show()).collect::<Vec<_>>().join(",")),
            Val::YMap(m) => format!("YMap{{{}}}", m.iter().map(|(k, v)| format!("{:?}:{}", k, v.show())).collect::<Vec<_>>().join(",")),
            Val::YText(s) => format!("YText({:?})", s), Val::YXmlElem(s) => format!("YXmlElem({:?})", s), Val::YXmlText(s) => format!("YXmlText({:?})", s),
        }
    }
    pub fn is_shared(&self) -> bool { !matches!(self, Val::J(_)) }
    /// the native prelim; maps with more than one entry are not deterministic (HashMap order) - the caller fills those entry by entry
    pub fn to_in(&self) -> In {
        match self {
            Val::J(j) => In::Any(j.to_any()),
            Val::YArr(v) => In::Array(ArrayPrelim::from(v.iter().map(|x| x.to_in()).collect::<Vec<In>>())),
            Val::YMap(m) => In::Map(m.iter().map(|(k, v)| (k.clone(), v.to_in())).collect::<MapPrelim>()),
            Val::YText(s) => In::from(TextPrelim::new(s.clone())),
            Val::YXmlElem(t) => In::XmlElement(XmlElementPrelim::empty(t.as_str())),
            Val::YXmlText(s) => In::from(XmlTextPrelim::new(s.clone())),
        }
    }
}

/// owner of everything the YInput cells of one call point to
#[derive(Default)]
pub struct Arena { strs: Vec<CString>, bufs: Vec<Vec<u8>>, cells: Vec<Vec<y::YInput>>, keys: Vec<Vec<*mut c_char>>, pub built: u64, pub by: std::collections::BTreeMap<&'static str, u64> }
impl Arena {
    pub fn cstr(&mut self, s: &str) -> *mut c_char { let c = CString::new(s).expect("no NUL in generated strings"); let p = c.as_ptr() as *mut c_char; self.strs.push(c); p }
    fn cells(&mut self, mut v: Vec<y::YInput>) -> *mut y::YInput { let p = v.as_mut_ptr(); self.cells.push(v); p }
    fn keyv(&mut self, mut v: Vec<*mut c_char>) -> *mut *mut c_char { let p = v.as_mut_ptr(); self.keys.push(v); p }
    fn bump(&mut self, k: &'static str) { self.built += 1; *self.by.entry(k).or_insert(0) += 1; }
    pub unsafe fn j(&mut self, j: &J) -> y::YInput {
        self.bump(match j { J::Null => "yinput_null", J::Undef => "yinput_undefined", J::Bool(_) => "yinput_bool", J::Num(_) => "yinput_float", J::Int(_) => "yinput_long", J::Str(_) => "yinput_string", J::Raw(_) => "yinput_json", J::Buf(_) => "yinput_binary", J::Arr(_) => "yinput_json_array", J::Map(_) => "yinput_json_map" });
        match j {
            J::Null => y::yinput_null(), J::Undef => y::yinput_undefined(), J::Bool(b) => y::yinput_bool(if *b { y::Y_TRUE } else { y::Y_FALSE }),
            J::Num(f) => y::yinput_float(*f), J::Int(i) => y::yinput_long(*i),
            J::Str(s) => { let p = self.cstr(s); y::yinput_string(p) }
            J::Raw(s) => { let p = self.cstr(s); y::yinput_json(p) }
            J::Buf(b) => { let v = b.clone(); let p = v.as_ptr() as *const c_char; let n = v.len() as u32; self.bufs.push(v); y::yinput_binary(p, n) }
            J::Arr(v) => { let cs: Vec<y::YInput> = v.iter().map(|x| self.j(x)).collect(); let n = cs.len() as u32; let p = self.cells(cs); y::yinput_json_array(p, n) }
            J::Map(m) => {
                let ks: Vec<*mut c_char> = m.iter().map(|(k, _)| self.cstr(k)).collect();
                let cs: Vec<y::YInput> = m.iter().map(|(_, x)| self.j(x)).collect();
                let n = cs.len() as u32; let kp = self.keyv(ks); let p = self.cells(cs); y::yinput_json_map(kp, p, n)
            }
        }
    }
    pub unsafe fn val(&mut self, v: &Val) -> y::YInput {
        match v {
            Val::J(j) => self.j(j),
            Val::YArr(vs) => { self.bump("yinput_yarray"); let cs: Vec<y::YInput> = vs.iter().map(|x| self.val(x)).collect(); let n = cs.len() as u32; let p = self.cells(cs); y::yinput_yarray(p, n) }
            Val::YMap(m) => {
                self.bump("yinput_ymap");
                let ks: Vec<*mut c_char> = m.iter().map(|(k, _)| self.cstr(k)).collect();
                let cs: Vec<y::YInput> = m.iter().map(|(_, x)| self.val(x)).collect();
                let n = cs.len() as u32; let kp = self.keyv(ks); let p = self.cells(cs); y::yinput_ymap(kp, p, n)
            }
            Val::YText(s) => { self.bump("yinput_ytext"); let p = self.cstr(s); y::yinput_ytext(p) }
            Val::YXmlElem(s) => { self.bump("yinput_yxmlelem"); let p = self.cstr(s); y::yinput_yxmlelem(p) }
            Val::YXmlText(s) => { self.bump("yinput_yxmltext"); let p = self.cstr(s); y::yinput_yxmltext(p) }
        }
    }
    /// a contiguous array of cells (for yarray_insert_range)
    pub unsafe fn vals(&mut self, vs: &[Val]) -> (*mut y::YInput, u32) { let cs: Vec<y::YInput> = vs.iter().map(|x| self.val(x)).collect(); let n = cs.len() as u32; (self.cells(cs), n) }
}

// ---------------------------------------------------------------------------------------------------------
// canonical renderings
// ---------------------------------------------------------------------------------------------------------
/// jany syntax (what the model's CELL command reads)
pub fn jany_of_any(a: &Any) -> String {
    match a {
        Any::Null => "N".into(), Any::Undefined => "U".into(), Any::Bool(b) => if *b { "T".into() } else { "F".into() },
        Any::Number(f) => format!("n{:016x}", f.to_bits()), Any::BigInt(i) => format!("i{:016x}", *i as u64),
        Any::String(s) => format!("s{}", hx(s.as_bytes())), Any::Buffer(b) => format!("x{}", hx(b)),
        Any::Array(l) => format!("[{}]", l.iter().map(jany_of_any).collect::<Vec<_>>().join(",")),
        Any::Map(m) => { let mut es: Vec<(&[u8], String)> = m.iter().map(|(k, v)| (k.as_bytes(), jany_of_any(v))).collect(); es.sort(); format!("{{{}}}", es.iter().map(|(k, v)| format!("{}={}", hx(k), v)).collect::<Vec<_>>().join(",")) }
    }
}
/// the output cell the C API documents / the model computes for a value (`impl From<Any> for YOutput`)
pub fn cell_of_any(a: &Any) -> String {
    match a {
        Any::Null => format!("{}:0:-", y::Y_JSON_NULL), Any::Undefined => format!("{}:0:-", y::Y_JSON_UNDEF),
        Any::Bool(b) => format!("{}:1:b{}", y::Y_JSON_BOOL, *b as u8), Any::Number(f) => format!("{}:1:n{:016x}", y::Y_JSON_NUM, f.to_bits()),
        Any::BigInt(i) => format!("{}:1:i{:016x}", y::Y_JSON_INT, *i as u64),
        Any::String(s) => format!("{}:{}:s{}", y::Y_JSON_STR, s.len(), hx(s.as_bytes())), Any::Buffer(b) => format!("{}:{}:x{}", y::Y_JSON_BUF, b.len(), hx(b)),
        Any::Array(l) => format!("{}:{}:[{}]", y::Y_JSON_ARR, l.len(), l.iter().map(cell_of_any).collect::<Vec<_>>().join(",")),
        Any::Map(m) => { let mut es: Vec<(&[u8], String)> = m.iter().map(|(k, v)| (k.as_bytes(), cell_of_any(v))).collect(); es.sort(); format!("{}:{}:{{{}}}", y::Y_JSON_MAP, m.len(), es.iter().map(|(k, v)| format!("{}={}", hx(k), v)).collect::<Vec<_>>().join(",")) }
    }
}
pub fn kind_of_out(o: &Out) -> i8 {
    match o { Out::Any(_) => 0, Out::YText(_) => y::Y_TEXT, Out::YArray(_) => y::Y_ARRAY, Out::YMap(_) => y::Y_MAP, Out::YXmlElement(_) => y::Y_XML_ELEM, Out::YXmlFragment(_) => y::Y_XML_FRAG, Out::YXmlText(_) => y::Y_XML_TEXT, Out::YDoc(_) => y::Y_DOC, Out::YWeakLink(_) => y::Y_WEAK_LINK, Out::UndefinedRef(_) => y::Y_UNDEFINED }
}
pub fn cell_of_out(o: &Out) -> String { match o { Out::Any(a) => cell_of_any(a), other => format!("{}:1:@", kind_of_out(other)) } }
pub fn branch_of_out(o: &Out) -> *const y::Branch {
    match o {
        Out::YText(r) => AsRef::<y::Branch>::as_ref(r) as *const _, Out::YArray(r) => AsRef::<y::Branch>::as_ref(r) as *const _, Out::YMap(r) => AsRef::<y::Branch>::as_ref(r) as *const _,
        Out::YXmlElement(r) => AsRef::<y::Branch>::as_ref(r) as *const _, Out::YXmlFragment(r) => AsRef::<y::Branch>::as_ref(r) as *const _, Out::YXmlText(r) => AsRef::<y::Branch>::as_ref(r) as *const _,
        _ => std::ptr::null(),
    }
}

/// Render an output cell by walking it with the youtput_read_* functions. `n` counts the cells visited.
pub unsafe fn cell_of_c(o: *const y::YOutput, n: &mut u64) -> String {
    *n += 1;
    let tag = (*o).tag; let len = (*o).len;
    // a reader of another kind must refuse the cell
    let mut cross = String::new();
    if tag != y::Y_DOC && !y::youtput_read_ydoc(o).is_null() { cross.push_str("!ydoc-reader-accepts"); }
    if tag != y::Y_JSON_STR && !y::youtput_read_string(o).is_null() { cross.push_str("!string-reader-accepts"); }
    if tag != y::Y_JSON_BOOL && !y::youtput_read_bool(o).is_null() { cross.push_str("!bool-reader-accepts"); }
    if tag != y::Y_ARRAY && !y::youtput_read_yarray(o).is_null() { cross.push_str("!yarray-reader-accepts"); }
    let payload = match tag {
        y::Y_JSON_NULL | y::Y_JSON_UNDEF => "-".to_string(),
        y::Y_JSON_BOOL => { let p = y::youtput_read_bool(o); if p.is_null() { "!null".into() } else { format!("b{}", *p) } }
        y::Y_JSON_NUM => { let p = y::youtput_read_float(o); if p.is_null() { "!null".into() } else { format!("n{:016x}", (*p).to_bits()) } }
        y::Y_JSON_INT => { let p = y::youtput_read_long(o); if p.is_null() { "!null".into() } else { format!("i{:016x}", *p as u64) } }
        y::Y_JSON_STR => { let p = y::youtput_read_string(o); if p.is_null() { "!null".into() } else { format!("s{}", hx(CStr::from_ptr(p).to_bytes())) } }
        y::Y_JSON_BUF => { let p = y::youtput_read_binary(o); if p.is_null() { "!null".into() } else { format!("x{}", hx(std::slice::from_raw_parts(p as *const u8, len as usize))) } }
        y::Y_JSON_ARR => {
            let p = y::youtput_read_json_array(o);
            if p.is_null() { "!null".into() } else { format!("[{}]", (0..len as usize).map(|i| cell_of_c(p.add(i), n)).collect::<Vec<_>>().join(",")) }
        }
        y::Y_JSON_MAP => {
            let p = y::youtput_read_json_map(o);
            if p.is_null() { "!null".into() } else {
                let mut es: Vec<(Vec<u8>, String)> = (0..len as usize).map(|i| { let e = &*p.add(i); (CStr::from_ptr(e.key).to_bytes().to_vec(), cell_of_c(e.value, n)) }).collect();
                es.sort();
                format!("{{{}}}", es.iter().map(|(k, v)| format!("{}={}", hx(k), v)).collect::<Vec<_>>().join(","))
            }
        }
        _ => "@".to_string(),
    };
    format!("{}:{}:{}{}", tag, len, payload, cross)
}
/// the branch behind a shared-type cell, through the reader that matches its tag (null when there is none)
pub unsafe fn branch_of_c(o: *const y::YOutput) -> *mut y::Branch {
    match (*o).tag {
        y::Y_ARRAY => y::youtput_read_yarray(o), y::Y_MAP => y::youtput_read_ymap(o), y::Y_TEXT => y::youtput_read_ytext(o),
        y::Y_XML_ELEM => y::youtput_read_yxmlelem(o), y::Y_XML_TEXT => y::youtput_read_yxmltext(o), y::Y_WEAK_LINK => y::youtput_read_yweak(o),
        _ => std::ptr::null_mut(),
    }
}
pub unsafe fn take_string(p: *mut c_char) -> Option<String> {
    if p.is_null() { return None; }
    let s = String::from_utf8_lossy(CStr::from_ptr(p).to_bytes()).into_owned();
    y::ystring_destroy(p);
    Some(s)
}
pub unsafe fn take_binary(p: *mut c_char, len: u32) -> Option<Vec<u8>> {
    if p.is_null() { return None; }
    let v = std::slice::from_raw_parts(p as *const u8, len as usize).to_vec();
    y::ybinary_destroy(p, len);
    Some(v)
}

// ---------------------------------------------------------------------------------------------------------
// public dump through the Rust read API (codec-normalised numbers: a replica that received the value through an
// update holds what the codec decoded) - used for the convergence check of the exchange cases
// ---------------------------------------------------------------------------------------------------------
pub mod dump {
    use super::hx;
    use yrs::types::text::YChange;
    use yrs::types::Attrs;
    use yrs::{Any, Array, Doc, Map, MapRef, Out, ReadTxn, Text, TextRef, Transact, Xml, XmlElementRef, XmlFragment, XmlTextRef};
    pub fn print_any(a: &Any) -> String {
        match a {
            Any::Undefined => "u".into(), Any::Null => "n".into(), Any::Bool(b) => if *b { "T".into() } else { "F".into() },
            Any::Number(f) => {
                let t = f.trunc();
                if t == *f && t <= yrs::any::F64_MAX_SAFE_INTEGER && t >= yrs::any::F64_MIN_SAFE_INTEGER { let z = t as i64; if z < 0 { format!("i-{:x}", -(z as i128)) } else { format!("i{:x}", z) } }
                else if ((*f as f32) as f64) == *f { format!("f{:x}", (*f as f32).to_bits()) } else if f.is_nan() { "NaN".into() } else { format!("D{:x}", f.to_bits()) }
            }
            Any::BigInt(i) => format!("g{:x}", *i as u64), Any::String(s) => format!("s{}", hx(s.as_bytes())), Any::Buffer(b) => format!("x{}", hx(b)),
            Any::Array(l) => format!("[{}]", l.iter().map(print_any).collect::<Vec<_>>().join(",")),
            Any::Map(m) => { let mut es: Vec<(String, String)> = m.iter().map(|(k, v)| (hx(k.as_bytes()), print_any(v))).collect(); es.sort(); format!("{{{}}}", es.iter().map(|(k, v)| format!("{}:{}", k, v)).collect::<Vec<_>>().join(",")) }
        }
    }
    fn print_attrs(a: &Attrs) -> String { let mut es: Vec<String> = a.iter().map(|(k, v)| format!("{}={}", k, print_any(v))).collect(); es.sort(); es.join("&") }
    pub fn print_out<T: ReadTxn>(o: &Out, txn: &T, depth: usize) -> String {
        if depth > 8 { return "<deep>".into(); }
        match o {
            Out::Any(a) => print_any(a), Out::YText(t) => format!("Text({})", print_text(t, txn, depth)),
            Out::YArray(a) => format!("Array[{}]", a.iter(txn).map(|v| print_out(&v, txn, depth + 1)).collect::<Vec<_>>().join(",")),
            Out::YMap(m) => print_map(m, txn, depth), Out::YXmlElement(e) => print_xml_elem(e, txn, depth),
            Out::YXmlFragment(e) => format!("XmlFrag({})", print_xml_children(e, txn, depth)), Out::YXmlText(e) => format!("XmlText({})", print_xmltext(e, txn, depth)),
            Out::YDoc(d) => format!("Doc({})", d.guid()), Out::YWeakLink(_) => "Weak".into(), Out::UndefinedRef(_) => "UndefinedRef".into(),
        }
    }
    pub fn print_text<T: ReadTxn>(t: &TextRef, txn: &T, depth: usize) -> String {
        t.diff(txn, YChange::identity).iter().map(|d| { let at = d.attributes.as_ref().map(|a| print_attrs(a)).unwrap_or_default(); format!("<{}|{}>", match &d.insert { Out::Any(Any::String(s)) => format!("'{}'", s), o => print_out(o, txn, depth + 1) }, at) }).collect::<Vec<_>>().join("")
    }
    pub fn print_xmltext<T: ReadTxn>(t: &XmlTextRef, txn: &T, depth: usize) -> String {
        let mut at: Vec<String> = t.attributes(txn).map(|(k, v)| format!("{}={}", k, print_out(&v, txn, depth + 1))).collect(); at.sort();
        let at = if at.is_empty() { String::new() } else { format!("@{} ", at.join(" ")) };
        at + &t.diff(txn, YChange::identity).iter().map(|d| { let at = d.attributes.as_ref().map(|a| print_attrs(a)).unwrap_or_default(); format!("<{}|{}>", match &d.insert { Out::Any(Any::String(s)) => format!("'{}'", s), o => print_out(o, txn, depth + 1) }, at) }).collect::<Vec<_>>().join("")
    }
    pub fn print_xml_children<T: ReadTxn, X: XmlFragment>(x: &X, txn: &T, depth: usize) -> String {
        (0..x.len(txn)).filter_map(|i| x.get(txn, i)).map(|n| match n { yrs::XmlOut::Element(e) => print_xml_elem(&e, txn, depth + 1), yrs::XmlOut::Fragment(f) => format!("XmlFrag({})", print_xml_children(&f, txn, depth + 1)), yrs::XmlOut::Text(t) => format!("XmlText({})", print_xmltext(&t, txn, depth + 1)) }).collect::<Vec<_>>().join("")
    }
    pub fn print_xml_elem<T: ReadTxn>(e: &XmlElementRef, txn: &T, depth: usize) -> String {
        if depth > 8 { return "<deep>".into(); }
        let mut at: Vec<String> = e.attributes(txn).map(|(k, v)| format!("{}={}", k, print_out(&v, txn, depth + 1))).collect(); at.sort();
        format!("<{} {}>{}</>", e.tag(), at.join(" "), print_xml_children(e, txn, depth))
    }
    pub fn print_map<T: ReadTxn>(m: &MapRef, txn: &T, depth: usize) -> String {
        let mut es: Vec<(String, String)> = m.iter(txn).map(|(k, v)| (k.to_string(), print_out(&v, txn, depth + 1))).collect(); es.sort();
        format!("Map{{{}}}", es.iter().map(|(k, v)| format!("{}:{}", k, v)).collect::<Vec<_>>().join(","))
    }
    pub fn public_dump(doc: &Doc) -> String {
        let t = doc.get_or_insert_text("t"); let a = doc.get_or_insert_array("a"); let m = doc.get_or_insert_map("m"); let x = doc.get_or_insert_xml_fragment("x");
        let txn = doc.transact();
        format!("t={} || a={} || m={} || x={}", print_text(&t, &txn, 0), print_out(&Out::YArray(a), &txn, 0), print_map(&m, &txn, 0), print_xml_children(&x, &txn, 0))
    }
}
