//! The operation language of a C19 program: generation against the twin's current state, execution through the
//! exported C functions on doc C and through the native API on the twin.
use super::vals::*;
use super::Fail;
use crate::rng::Rng;
use crate::yffi as y;
use serde_json::json;
use std::ptr::null;
use yrs::types::text::{Diff, YChange};
use yrs::types::Attrs;
use yrs::{Array, ArrayPrelim, ArrayRef, Map, MapPrelim, MapRef, Out, ReadTxn, Text, TextPrelim, TransactionMut, Xml, XmlElementPrelim, XmlFragment, XmlOut, XmlTextPrelim};

#[derive(Clone, Debug, PartialEq)]
pub enum Seg { Idx(u32), Key(String) }
#[derive(Clone, Debug, PartialEq)]
pub struct Path { pub root: usize, pub segs: Vec<Seg> }
pub const ROOT_NAMES: [&str; 4] = ["t", "a", "m", "x"];
pub const ROOT_KINDS: [i8; 4] = [y::Y_TEXT, y::Y_ARRAY, y::Y_MAP, y::Y_XML_FRAG];
impl Path {
    pub fn show(&self) -> String { let mut s = ROOT_NAMES[self.root].to_string(); for g in &self.segs { match g { Seg::Idx(i) => s.push_str(&format!("[{}]", i)), Seg::Key(k) => s.push_str(&format!(".{}", k)) } } s }
}
pub type AttrsJ = Vec<(String, J)>;
fn show_attrs(a: &AttrsJ) -> String { J::Map(a.clone()).show() }
pub fn attrs_native(a: &AttrsJ) -> Attrs { let mut m = Attrs::new(); for (k, v) in a { m.insert(k.as_str().into(), v.to_any()); } m }

#[derive(Clone, Debug)]
pub enum Op {
    TextInsert { p: Path, xml: bool, idx: u32, s: String, attrs: Option<AttrsJ> },
    TextFormat { p: Path, xml: bool, idx: u32, len: u32, attrs: AttrsJ },
    TextEmbed { p: Path, xml: bool, idx: u32, content: Val, attrs: Option<AttrsJ> },
    TextRemove { p: Path, xml: bool, idx: u32, len: u32 },
    TextDelta { p: Path, retain: u32, retain_attrs: Option<AttrsJ>, insert: Option<(String, Option<AttrsJ>)>, delete: u32 },
    ArrInsert { p: Path, idx: u32, vals: Vec<Val> },
    ArrRemove { p: Path, idx: u32, len: u32 },
    MapInsert { p: Path, key: String, val: Val },
    MapRemove { p: Path, key: String },
    MapClear { p: Path },
    XmlInsertElem { p: Path, idx: u32, tag: String },
    XmlInsertText { p: Path, idx: u32 },
    XmlRemove { p: Path, idx: u32, len: u32 },
    XmlAttr { p: Path, text: bool, name: String, value: J },
    XmlRemoveAttr { p: Path, text: bool, name: String },
}
impl Op {
    pub fn path(&self) -> &Path {
        match self {
            Op::TextInsert { p, .. } | Op::TextFormat { p, .. } | Op::TextEmbed { p, .. } | Op::TextRemove { p, .. } | Op::TextDelta { p, .. } | Op::ArrInsert { p, .. } | Op::ArrRemove { p, .. }
            | Op::MapInsert { p, .. } | Op::MapRemove { p, .. } | Op::MapClear { p } | Op::XmlInsertElem { p, .. } | Op::XmlInsertText { p, .. } | Op::XmlRemove { p, .. } | Op::XmlAttr { p, .. } | Op::XmlRemoveAttr { p, .. } => p,
        }
    }
    pub fn kind_name(&self) -> &'static str {
        match self {
            Op::TextInsert { xml: false, attrs: None, .. } => "ytext_insert", Op::TextInsert { xml: false, .. } => "ytext_insert+attrs", Op::TextInsert { attrs: None, .. } => "yxmltext_insert", Op::TextInsert { .. } => "yxmltext_insert+attrs",
            Op::TextFormat { xml: false, .. } => "ytext_format", Op::TextFormat { .. } => "yxmltext_format",
            Op::TextEmbed { xml: false, .. } => "ytext_insert_embed", Op::TextEmbed { .. } => "yxmltext_insert_embed",
            Op::TextRemove { xml: false, .. } => "ytext_remove_range", Op::TextRemove { .. } => "yxmltext_remove_range", Op::TextDelta { .. } => "ytext_insert_delta",
            Op::ArrInsert { .. } => "yarray_insert_range", Op::ArrRemove { .. } => "yarray_remove_range",
            Op::MapInsert { .. } => "ymap_insert", Op::MapRemove { .. } => "ymap_remove", Op::MapClear { .. } => "ymap_remove_all",
            Op::XmlInsertElem { .. } => "yxmlelem_insert_elem", Op::XmlInsertText { .. } => "yxmlelem_insert_text", Op::XmlRemove { .. } => "yxmlelem_remove_range",
            Op::XmlAttr { text: false, .. } => "yxmlelem_insert_attr", Op::XmlAttr { .. } => "yxmltext_insert_attr", Op::XmlRemoveAttr { text: false, .. } => "yxmlelem_remove_attr", Op::XmlRemoveAttr { .. } => "yxmltext_remove_attr",
        }
    }
    pub fn show(&self) -> String {
        let oa = |a: &Option<AttrsJ>| a.as_ref().map(|a| format!(",attrs={}", show_attrs(a))).unwrap_or_default();
        match self {
            Op::TextInsert { p, idx, s, attrs, .. } => format!("{}.insert({},{:?}{})", p.show(), idx, s, oa(attrs)),
            Op::TextFormat { p, idx, len, attrs, .. } => format!("{}.format({},{},{})", p.show(), idx, len, show_attrs(attrs)),
            Op::TextEmbed { p, idx, content, attrs, .. } => format!("{}.insert_embed({},{}{})", p.show(), idx, content.show(), oa(attrs)),
            Op::TextRemove { p, idx, len, .. } => format!("{}.remove_range({},{})", p.show(), idx, len),
            Op::TextDelta { p, retain, retain_attrs, insert, delete } => format!("{}.delta(retain {}{}; insert {:?}; delete {})", p.show(), retain, oa(retain_attrs), insert.as_ref().map(|(s, a)| format!("{:?}{}", s, oa(a))), delete),
            Op::ArrInsert { p, idx, vals } => format!("{}.insert_range({},[{}])", p.show(), idx, vals.iter().map(|v| v.show()).collect::<Vec<_>>().join(",")),
            Op::ArrRemove { p, idx, len } => format!("{}.remove_range({},{})", p.show(), idx, len),
            Op::MapInsert { p, key, val } => format!("{}.insert({:?},{})", p.show(), key, val.show()),
            Op::MapRemove { p, key } => format!("{}.remove({:?})", p.show(), key), Op::MapClear { p } => format!("{}.remove_all()", p.show()),
            Op::XmlInsertElem { p, idx, tag } => format!("{}.insert_elem({},{:?})", p.show(), idx, tag), Op::XmlInsertText { p, idx } => format!("{}.insert_text({})", p.show(), idx),
            Op::XmlRemove { p, idx, len } => format!("{}.remove_range({},{})", p.show(), idx, len),
            Op::XmlAttr { p, name, value, .. } => format!("{}.insert_attr({:?},{})", p.show(), name, value.show()), Op::XmlRemoveAttr { p, name, .. } => format!("{}.remove_attr({:?})", p.show(), name),
        }
    }
    pub fn uses_nested(&self) -> bool {
        if !self.path().segs.is_empty() { return true; }
        match self { Op::ArrInsert { vals, .. } => vals.iter().any(|v| v.is_shared()), Op::MapInsert { val, .. } => val.is_shared(), Op::TextEmbed { content, .. } => content.is_shared(), Op::XmlInsertElem { .. } | Op::XmlInsertText { .. } => true, _ => false }
    }
}

// ---------------------------------------------------------------------------------------------------------
// generation
// ---------------------------------------------------------------------------------------------------------
#[derive(Clone, Copy, Debug)]
pub struct GenCfg { pub text: bool, pub array: bool, pub map: bool, pub xml: bool, pub nested: bool }

const ALPHA: [&str; 24] = ["a", "b", "c", "Z", "0", " ", "é", "ß", "ñ", "中", "日", "😀", "𝄞", "👍🏽", "\u{301}", "\u{200d}", "<", "&", "\"", "'", "\\", "\n", "ü", "𐍈"];
const MAP_KEYS: [&str; 5] = ["k1", "k2", "κ3", "🔑", "a b"];
const JSON_KEYS: [&str; 6] = ["k", "key2", "κλειδί", "🔑", "", "a b"];
const FMT_KEYS: [&str; 4] = ["b", "i", "color", "ö"];
const TAGS: [&str; 4] = ["p", "div", "søn", "x-😀"];
const ATTR_NAMES: [&str; 3] = ["id", "cls", "дата"];
const NUMS: [f64; 16] = [0.0, -0.0, 1.0, -1.5, 0.1, 1e300, -2.5e-300, 5e-324, 9007199254740992.0, 4294967296.0, 3.4028234663852886e38, f64::INFINITY, f64::NEG_INFINITY, 123456.789, -7.0, 2147483648.0];
const INTS: [i64; 10] = [0, 1, -1, 42, i64::MAX, i64::MIN, 1 << 53, (1 << 53) + 1, -(1 << 31), 1 << 40];
const RAWS: [&str; 8] = ["null", "true", "12", "-3.5", "\"päx😀\"", "[1,\"a\",null,{\"z\":[]}]", "{\"a\":{\"b\":[true,2.5]},\"ü\":\"\\u00e9\"}", "9007199254740993"];

pub fn rand_string(r: &mut Rng, lo: u64, hi: u64) -> String { let n = r.range(lo, hi); (0..n).map(|_| *r.pick(&ALPHA)).collect::<Vec<_>>().join("") }
pub fn rand_j(r: &mut Rng, depth: u32, nan_ok: bool) -> J {
    match r.below(if depth >= 2 { 7 } else if depth == 0 { 10 } else { 9 }) {
        0 => J::Null, 1 => J::Undef, 2 => J::Bool(r.chance(1, 2)),
        3 => if nan_ok && r.chance(1, 12) { J::Num(f64::NAN) } else if r.chance(1, 3) { J::Num(r.below(2000) as f64 / 8.0 - 100.0) } else { J::Num(*r.pick(&NUMS)) },
        4 => if r.chance(1, 3) { J::Int((r.next() as i64) >> r.below(63)) } else { J::Int(*r.pick(&INTS)) },
        5 => J::Str(rand_string(r, 0, 4)),
        6 => { let n = r.below(5) as usize; J::Buf((0..n).map(|_| r.below(256) as u8).collect()) }
        7 => J::Arr((0..r.below(4)).map(|_| rand_j(r, depth + 1, nan_ok)).collect()),
        8 => J::Map((0..r.below(4)).map(|_| (r.pick(&JSON_KEYS).to_string(), rand_j(r, depth + 1, nan_ok))).collect()),
        _ => J::Raw(r.pick(&RAWS).to_string()),
    }
}
/// a value for an array slot / map entry; shared-type prelims below another prelim keep maps at one entry at most (a native
/// MapPrelim with several entries integrates in HashMap order)
pub fn rand_val(r: &mut Rng, depth: u32, nested: bool) -> Val {
    if !nested || depth >= 3 || !r.chance(2, 5) { return Val::J(rand_j(r, 0, true)); }
    match r.below(6) {
        0 | 1 => Val::YArr((0..r.below(4)).map(|_| rand_val(r, depth + 1, true)).collect()),
        2 => {
            let n = if depth == 0 { r.below(4) } else { r.below(2) };
            let mut ks: Vec<&str> = MAP_KEYS.to_vec(); r.shuffle(&mut ks);
            Val::YMap((0..n as usize).map(|i| (ks[i].to_string(), rand_val(r, depth + 1, true))).collect())
        }
        3 => Val::YText(rand_string(r, 0, 4)),
        4 => Val::YXmlElem(r.pick(&TAGS).to_string()),
        _ => Val::YXmlText(rand_string(r, 0, 3)),
    }
}
fn rand_attrs(r: &mut Rng) -> AttrsJ {
    let n = r.range(1, 2); let mut ks: Vec<&str> = FMT_KEYS.to_vec(); r.shuffle(&mut ks);
    (0..n as usize).map(|i| (ks[i].to_string(), match r.below(7) { 0 | 1 => J::Bool(true), 2 => J::Null, 3 => J::Str(rand_string(r, 1, 2)), 4 => J::Num(r.below(50) as f64 / 2.0), 5 => J::Int(r.below(9) as i64 - 4), _ => J::Map(vec![("w".into(), J::Int(700)), ("s".into(), J::Str("ü".into()))]) })).collect()
}
pub fn text_positions(chunks: &[Diff<YChange>]) -> Vec<u32> {
    let mut pos = vec![0u32]; let mut cur = 0u32;
    for d in chunks { match &d.insert { Out::Any(yrs::Any::String(s)) => for ch in s.chars() { cur += ch.len_utf16() as u32; pos.push(cur); }, _ => { cur += 1; pos.push(cur); } } }
    pos
}
pub fn xml_out(n: XmlOut) -> Out { match n { XmlOut::Element(e) => Out::YXmlElement(e), XmlOut::Fragment(f) => Out::YXmlFragment(f), XmlOut::Text(t) => Out::YXmlText(t) } }
/// children that are shared types the C API can hand out a branch for
pub fn shared_children<T: ReadTxn>(o: &Out, txn: &T) -> Vec<(Seg, Out)> {
    let ok = |v: &Out| matches!(v, Out::YText(_) | Out::YArray(_) | Out::YMap(_) | Out::YXmlElement(_) | Out::YXmlText(_));
    match o {
        Out::YArray(a) => a.iter(txn).enumerate().filter(|(_, v)| ok(v)).map(|(i, v)| (Seg::Idx(i as u32), v)).collect(),
        Out::YMap(m) => { let mut v: Vec<(Seg, Out)> = m.iter(txn).filter(|(_, v)| ok(v)).map(|(k, v)| (Seg::Key(k.to_string()), v)).collect(); v.sort_by(|a, b| format!("{:?}", a.0).cmp(&format!("{:?}", b.0))); v }
        Out::YXmlFragment(x) => (0..x.len(txn)).filter_map(|i| x.get(txn, i).map(|n| (Seg::Idx(i), xml_out(n)))).filter(|(_, v)| ok(v)).collect(),
        Out::YXmlElement(x) => (0..x.len(txn)).filter_map(|i| x.get(txn, i).map(|n| (Seg::Idx(i), xml_out(n)))).filter(|(_, v)| ok(v)).collect(),
        _ => vec![],
    }
}
pub fn resolve_r<T: ReadTxn>(roots: &[Out; 4], txn: &T, p: &Path) -> Option<Out> {
    let mut cur = roots[p.root].clone();
    for g in &p.segs {
        cur = match (&cur, g) {
            (Out::YArray(a), Seg::Idx(i)) => a.get(txn, *i)?, (Out::YMap(m), Seg::Key(k)) => m.get(txn, k)?,
            (Out::YXmlFragment(x), Seg::Idx(i)) => xml_out(x.get(txn, *i)?), (Out::YXmlElement(x), Seg::Idx(i)) => xml_out(x.get(txn, *i)?),
            _ => return None,
        };
    }
    Some(cur)
}
fn gen_text<T: ReadTxn, X: Text>(r: &mut Rng, cfg: &GenCfg, t: &X, txn: &T, p: Path, xml: bool) -> Op {
    let pos = text_positions(&t.diff(txn, YChange::identity)); let n = pos.len() - 1;
    let span = |r: &mut Rng| { let i = r.below(n as u64) as usize; let j = if r.chance(1, 25) { i } else { r.range(i as u64 + 1, (n as u64).min(i as u64 + 4)) as usize }; (pos[i], pos[j] - pos[i]) };
    let c = r.below(12);
    if c < 4 || n == 0 && c != 6 && c != 9 { let idx = *r.pick(&pos); let s = if r.chance(1, 15) { String::new() } else { rand_string(r, 1, 4) }; return Op::TextInsert { p, xml, idx, s, attrs: None }; }
    match c {
        4 => { let idx = *r.pick(&pos); let lo = if r.chance(1, 15) { 0 } else { 1 }; let s = rand_string(r, lo, 3); Op::TextInsert { p, xml, idx, s, attrs: Some(rand_attrs(r)) } }
        5 => { let (idx, len) = span(r); Op::TextFormat { p, xml, idx, len, attrs: rand_attrs(r) } }
        6 => {
            let idx = *r.pick(&pos);
            let content = if cfg.nested && r.chance(1, 3) { match r.below(3) { 0 => Val::YText(rand_string(r, 0, 3)), 1 => Val::YMap(if r.chance(1, 2) { vec![] } else { vec![("e".into(), Val::J(rand_j(r, 1, false)))] }), _ => Val::YArr(vec![Val::J(rand_j(r, 1, false))]) } } else { Val::J(rand_j(r, 0, false)) };
            // an embedded string cannot be told from text through `diff` (the generator computes positions from it): wrap strings
            let content = match content { Val::J(J::Str(s)) => Val::J(J::Arr(vec![J::Str(s)])), Val::J(J::Raw(s)) if s.starts_with('"') => Val::J(J::Raw("[\"é\"]".into())), c => c };
            Op::TextEmbed { p, xml, idx, content, attrs: if r.chance(1, 3) { Some(rand_attrs(r)) } else { None } }
        }
        7 | 8 => { let (idx, len) = span(r); Op::TextRemove { p, xml, idx, len } }
        9 if xml => { let name = r.pick(&ATTR_NAMES).to_string(); if r.chance(2, 3) { Op::XmlAttr { p, text: true, name, value: if r.chance(3, 4) { J::Str(rand_string(r, 0, 3)) } else { rand_j(r, 1, false) } } } else { Op::XmlRemoveAttr { p, text: true, name } } }
        9 | 10 if !xml => {
            // retain a prefix (maybe formatting it), insert, delete
            let i = r.below(n as u64 + 1) as usize; let retain = pos[i];
            let j = r.range(i as u64, (n as u64).min(i as u64 + 2)) as usize; let delete = pos[j] - pos[i];
            let insert = if r.chance(2, 3) || (retain == 0 && delete == 0) { Some((rand_string(r, 1, 3), if r.chance(1, 3) { Some(rand_attrs(r)) } else { None })) } else { None };
            Op::TextDelta { p, retain, retain_attrs: if retain > 0 && r.chance(1, 3) { Some(rand_attrs(r)) } else { None }, insert, delete }
        }
        _ => { let idx = pos[n]; Op::TextInsert { p, xml, idx, s: rand_string(r, 1, 3), attrs: None } }
    }
}
/// one random operation on a randomly chosen (possibly nested) live shared type of the twin
pub fn gen_op<T: ReadTxn>(r: &mut Rng, cfg: &GenCfg, roots: &[Out; 4], txn: &T) -> Op {
    let mut kinds = vec![];
    if cfg.text { kinds.extend([0, 0]); } if cfg.array { kinds.extend([1, 1, 1]); } if cfg.map { kinds.extend([2, 2, 2]); } if cfg.xml { kinds.extend([3, 3]); }
    let root = *r.pick(&kinds);
    let mut p = Path { root, segs: vec![] }; let mut cur = roots[root].clone();
    for _ in 0..3 {
        if !cfg.nested || !r.chance(1, 2) { break; }
        let ch = shared_children(&cur, txn); if ch.is_empty() { break; }
        let (g, c) = r.pick(&ch).clone(); p.segs.push(g); cur = c;
    }
    match &cur {
        Out::YText(t) => gen_text(r, cfg, t, txn, p, false),
        Out::YXmlText(t) => gen_text(r, cfg, t, txn, p, true),
        Out::YArray(a) => {
            let len = a.len(txn); let c = r.below(10);
            if c < 6 || len == 0 { let idx = r.below(len as u64 + 1) as u32; let n = if c < 3 { 1 } else { r.range(2, 4) }; Op::ArrInsert { p, idx, vals: (0..n).map(|_| rand_val(r, 0, cfg.nested)).collect() } }
            else { let idx = r.below(len as u64) as u32; let l = if r.chance(1, 25) { 0 } else { r.range(1, (len - idx).min(3) as u64) as u32 }; Op::ArrRemove { p, idx, len: l } }
        }
        Out::YMap(_) => {
            let key = r.pick(&MAP_KEYS).to_string(); let c = r.below(10);
            if c < 6 { Op::MapInsert { p, key, val: rand_val(r, 0, cfg.nested) } } else if c < 9 { Op::MapRemove { p, key } } else { Op::MapClear { p } }
        }
        Out::YXmlFragment(_) | Out::YXmlElement(_) => {
            let (len, elem) = match &cur { Out::YXmlFragment(x) => (x.len(txn), false), Out::YXmlElement(x) => (x.len(txn), true), _ => unreachable!() };
            let c = r.below(10);
            if elem && c >= 7 { let name = r.pick(&ATTR_NAMES).to_string(); return if c < 9 { Op::XmlAttr { p, text: false, name, value: if r.chance(3, 4) { J::Str(rand_string(r, 0, 3)) } else { rand_j(r, 1, false) } } } else { Op::XmlRemoveAttr { p, text: false, name } }; }
            if c < 3 || len == 0 && c < 5 { Op::XmlInsertElem { p, idx: r.below(len as u64 + 1) as u32, tag: r.pick(&TAGS).to_string() } }
            else if c < 5 || len == 0 { Op::XmlInsertText { p, idx: r.below(len as u64 + 1) as u32 } }
            else { let idx = r.below(len as u64) as u32; let l = r.range(1, (len - idx).min(2) as u64) as u32; Op::XmlRemove { p, idx, len: l } }
        }
        _ => unreachable!("targets are shared types"),
    }
}

// ---------------------------------------------------------------------------------------------------------
// execution through the C API
// ---------------------------------------------------------------------------------------------------------
/// follow a path with the C getters; returns the branch and its kind
pub unsafe fn resolve_c(roots: &[*mut y::Branch; 4], txn: *mut y::Transaction, p: &Path) -> Result<(*mut y::Branch, i8), Fail> {
    let mut cur = roots[p.root]; let mut kind = ROOT_KINDS[p.root];
    for (d, g) in p.segs.iter().enumerate() {
        let o: *mut y::YOutput = match (kind, g) {
            (y::Y_ARRAY, Seg::Idx(i)) => y::yarray_get(cur, txn, *i),
            (y::Y_MAP, Seg::Key(k)) => { let c = std::ffi::CString::new(k.as_str()).unwrap(); y::ymap_get(cur, txn, c.as_ptr()) }
            (y::Y_XML_FRAG, Seg::Idx(i)) | (y::Y_XML_ELEM, Seg::Idx(i)) => y::yxmlelem_get(cur, txn, *i) as *mut y::YOutput,
            _ => return Err(json!({"class": "navigation-differs", "path": p.show(), "depth": d, "c_kind": kind})),
        };
        if o.is_null() { return Err(json!({"class": "navigation-differs", "path": p.show(), "depth": d, "detail": "C getter returned NULL where the twin has a shared type"})); }
        let b = branch_of_c(o); let tag = (*o).tag;
        y::youtput_destroy(o);
        if b.is_null() { return Err(json!({"class": "navigation-differs", "path": p.show(), "depth": d, "detail": format!("C cell has tag {} where the twin has a shared type", tag)})); }
        cur = b; kind = tag;
    }
    let k = y::ytype_kind(cur);
    if k != kind { return Err(json!({"class": "type-kind-differs", "path": p.show(), "ytype_kind": k, "cell_tag": kind})); }
    Ok((cur, kind))
}
fn want(kind: i8, ok: &[i8], op: &Op) -> Result<(), Fail> { if ok.contains(&kind) { Ok(()) } else { Err(json!({"class": "navigation-differs", "op": op.show(), "detail": format!("C side found kind {} at the target", kind)})) } }

pub unsafe fn exec_c(roots: &[*mut y::Branch; 4], ct: *mut y::Transaction, op: &Op, built: &mut std::collections::BTreeMap<String, u64>) -> Result<String, Fail> {
    let (b, kind) = resolve_c(roots, ct, op.path())?;
    let mut ar = Arena::default();
    let res = match op {
        Op::TextInsert { xml, idx, s, attrs, .. } => {
            want(kind, &[if *xml { y::Y_XML_TEXT } else { y::Y_TEXT }], op)?;
            let cs = ar.cstr(s); let at = attrs.as_ref().map(|a| ar.j(&J::Map(a.clone()))); let atp = at.as_ref().map(|a| a as *const y::YInput).unwrap_or(null());
            if *xml { y::yxmltext_insert(b, ct, *idx, cs, atp) } else { y::ytext_insert(b, ct, *idx, cs, atp) }
            "()".to_string()
        }
        Op::TextFormat { xml, idx, len, attrs, .. } => {
            want(kind, &[if *xml { y::Y_XML_TEXT } else { y::Y_TEXT }], op)?;
            let at = ar.j(&J::Map(attrs.clone()));
            if *xml { y::yxmltext_format(b, ct, *idx, *len, &at) } else { y::ytext_format(b, ct, *idx, *len, &at) }
            "()".into()
        }
        Op::TextEmbed { xml, idx, content, attrs, .. } => {
            want(kind, &[if *xml { y::Y_XML_TEXT } else { y::Y_TEXT }], op)?;
            let c = ar.val(content); let at = attrs.as_ref().map(|a| ar.j(&J::Map(a.clone()))); let atp = at.as_ref().map(|a| a as *const y::YInput).unwrap_or(null());
            if *xml { y::yxmltext_insert_embed(b, ct, *idx, &c, atp) } else { y::ytext_insert_embed(b, ct, *idx, &c, atp) }
            "()".into()
        }
        Op::TextRemove { xml, idx, len, .. } => { want(kind, &[if *xml { y::Y_XML_TEXT } else { y::Y_TEXT }], op)?; if *xml { y::yxmltext_remove_range(b, ct, *idx, *len) } else { y::ytext_remove_range(b, ct, *idx, *len) } "()".into() }
        Op::TextDelta { retain, retain_attrs, insert, delete, .. } => {
            want(kind, &[y::Y_TEXT], op)?;
            let ra = retain_attrs.as_ref().map(|a| ar.j(&J::Map(a.clone())));
            let ins = insert.as_ref().map(|(s, a)| (ar.j(&J::Str(s.clone())), a.as_ref().map(|a| ar.j(&J::Map(a.clone())))));
            let mut d: Vec<y::YDeltaIn> = vec![];
            if *retain > 0 { d.push(y::ydelta_input_retain(*retain, ra.as_ref().map(|a| a as *const y::YInput).unwrap_or(null()))); }
            if let Some((s, a)) = ins.as_ref() { d.push(y::ydelta_input_insert(s, a.as_ref().map(|a| a as *const y::YInput).unwrap_or(null()))); }
            if *delete > 0 { d.push(y::ydelta_input_delete(*delete)); }
            y::ytext_insert_delta(b, ct, d.as_mut_ptr(), d.len() as u32);
            "()".into()
        }
        Op::ArrInsert { idx, vals, .. } => { want(kind, &[y::Y_ARRAY], op)?; let (p, n) = ar.vals(vals); y::yarray_insert_range(b, ct, *idx, p, n); "()".into() }
        Op::ArrRemove { idx, len, .. } => { want(kind, &[y::Y_ARRAY], op)?; y::yarray_remove_range(b, ct, *idx, *len); "()".into() }
        Op::MapInsert { key, val, .. } => { want(kind, &[y::Y_MAP], op)?; let k = ar.cstr(key); let v = ar.val(val); y::ymap_insert(b, ct, k, &v); "()".into() }
        Op::MapRemove { key, .. } => { want(kind, &[y::Y_MAP], op)?; let k = ar.cstr(key); format!("{}", y::ymap_remove(b, ct, k)) }
        Op::MapClear { .. } => { want(kind, &[y::Y_MAP], op)?; y::ymap_remove_all(b, ct); "()".into() }
        Op::XmlInsertElem { idx, tag, .. } => {
            want(kind, &[y::Y_XML_FRAG, y::Y_XML_ELEM], op)?;
            let t = ar.cstr(tag); let nb = y::yxmlelem_insert_elem(b, ct, *idx, t);
            let back = take_string(y::yxmlelem_tag(nb));
            format!("kind={} tag={:?}", y::ytype_kind(nb), back)
        }
        Op::XmlInsertText { idx, .. } => { want(kind, &[y::Y_XML_FRAG, y::Y_XML_ELEM], op)?; let nb = y::yxmlelem_insert_text(b, ct, *idx); format!("kind={}", y::ytype_kind(nb)) }
        Op::XmlRemove { idx, len, .. } => { want(kind, &[y::Y_XML_FRAG, y::Y_XML_ELEM], op)?; y::yxmlelem_remove_range(b, ct, *idx, *len); "()".into() }
        Op::XmlAttr { text, name, value, .. } => {
            want(kind, &[if *text { y::Y_XML_TEXT } else { y::Y_XML_ELEM }], op)?;
            let n = ar.cstr(name); let v = ar.j(value);
            if *text { y::yxmltext_insert_attr(b, ct, n, &v) } else { y::yxmlelem_insert_attr(b, ct, n, &v) }
            "()".into()
        }
        Op::XmlRemoveAttr { text, name, .. } => { want(kind, &[if *text { y::Y_XML_TEXT } else { y::Y_XML_ELEM }], op)?; let n = ar.cstr(name); if *text { y::yxmltext_remove_attr(b, ct, n) } else { y::yxmlelem_remove_attr(b, ct, n) } "()".into() }
    };
    for (k, v) in ar.by.iter() { *built.entry(format!("fn:{}", k)).or_insert(0) += v; }
    *built.entry("input_cells_built".to_string()).or_insert(0) += ar.built;
    Ok(res)
}

// ---------------------------------------------------------------------------------------------------------
// execution through the native API (the twin, and the third replica of the exchange cases)
// ---------------------------------------------------------------------------------------------------------
fn fill_map(m: &MapRef, txn: &mut TransactionMut, es: &[(String, Val)]) { for (k, v) in es { m.insert(txn, k.as_str(), v.to_in()); } }
fn arr_insert(a: &ArrayRef, txn: &mut TransactionMut, idx: u32, vals: &[Val]) {
    // the C function inserts runs of json-like cells with one insert_range and every shared-type cell on its own
    let mut j = idx; let mut i = 0;
    while i < vals.len() {
        let mut run = vec![];
        while i < vals.len() { if let Val::J(x) = &vals[i] { run.push(x.to_any()); i += 1; } else { break; } }
        if !run.is_empty() { let n = run.len() as u32; a.insert_range(txn, j, run); j += n; }
        else { match &vals[i] { Val::YMap(es) if es.len() > 1 => { let m = a.insert(txn, j, MapPrelim::default()); fill_map(&m, txn, es); } v => { a.insert(txn, j, v.to_in()); } } i += 1; j += 1; }
    }
}
fn embed<X: Text>(t: &X, txn: &mut TransactionMut, idx: u32, content: &Val, attrs: &Option<AttrsJ>) {
    macro_rules! go { ($v:expr) => { match attrs { None => { t.insert_embed(txn, idx, $v); } Some(a) => { t.insert_embed_with_attributes(txn, idx, $v, attrs_native(a)); } } } }
    match content {
        Val::J(j) => go!(j.to_any()),
        Val::YText(s) => go!(TextPrelim::new(s.clone())),
        Val::YMap(es) => go!(es.iter().map(|(k, v)| (k.clone(), v.to_in())).collect::<MapPrelim>()),
        Val::YArr(vs) => go!(ArrayPrelim::from(vs.iter().map(|v| v.to_in()).collect::<Vec<_>>())),
        Val::YXmlElem(tg) => go!(XmlElementPrelim::empty(tg.as_str())),
        Val::YXmlText(s) => go!(XmlTextPrelim::new(s.clone())),
    }
}
pub fn exec_r(roots: &[Out; 4], txn: &mut TransactionMut, op: &Op) -> String {
    let target = resolve_r(roots, txn, op.path()).expect("twin path resolves");
    match (op, &target) {
        (Op::TextInsert { idx, s, attrs, .. }, Out::YText(t)) => { match attrs { None => t.insert(txn, *idx, s), Some(a) => t.insert_with_attributes(txn, *idx, s, attrs_native(a)) } "()".into() }
        (Op::TextInsert { idx, s, attrs, .. }, Out::YXmlText(t)) => { match attrs { None => t.insert(txn, *idx, s), Some(a) => t.insert_with_attributes(txn, *idx, s, attrs_native(a)) } "()".into() }
        (Op::TextFormat { idx, len, attrs, .. }, Out::YText(t)) => { t.format(txn, *idx, *len, attrs_native(attrs)); "()".into() }
        (Op::TextFormat { idx, len, attrs, .. }, Out::YXmlText(t)) => { t.format(txn, *idx, *len, attrs_native(attrs)); "()".into() }
        (Op::TextEmbed { idx, content, attrs, .. }, Out::YText(t)) => { embed(t, txn, *idx, content, attrs); "()".into() }
        (Op::TextEmbed { idx, content, attrs, .. }, Out::YXmlText(t)) => { embed(t, txn, *idx, content, attrs); "()".into() }
        (Op::TextRemove { idx, len, .. }, Out::YText(t)) => { t.remove_range(txn, *idx, *len); "()".into() }
        (Op::TextRemove { idx, len, .. }, Out::YXmlText(t)) => { t.remove_range(txn, *idx, *len); "()".into() }
        (Op::TextDelta { retain, retain_attrs, insert, delete, .. }, Out::YText(t)) => {
            use yrs::types::Delta;
            let mut d: Vec<Delta<yrs::In>> = vec![];
            if *retain > 0 { d.push(Delta::Retain(*retain, retain_attrs.as_ref().map(|a| Box::new(attrs_native(a))))); }
            if let Some((s, a)) = insert { d.push(Delta::Inserted(yrs::In::Any(yrs::Any::String(s.as_str().into())), a.as_ref().map(|a| Box::new(attrs_native(a))))); }
            if *delete > 0 { d.push(Delta::Deleted(*delete)); }
            t.apply_delta(txn, d); "()".into()
        }
        (Op::ArrInsert { idx, vals, .. }, Out::YArray(a)) => { arr_insert(a, txn, *idx, vals); "()".into() }
        (Op::ArrRemove { idx, len, .. }, Out::YArray(a)) => { a.remove_range(txn, *idx, *len); "()".into() }
        (Op::MapInsert { key, val, .. }, Out::YMap(m)) => { match val { Val::YMap(es) if es.len() > 1 => { let n = m.insert(txn, key.as_str(), MapPrelim::default()); fill_map(&n, txn, es); } v => { m.insert(txn, key.as_str(), v.to_in()); } } "()".into() }
        (Op::MapRemove { key, .. }, Out::YMap(m)) => format!("{}", m.remove(txn, key).is_some() as u8),
        (Op::MapClear { .. }, Out::YMap(m)) => { m.clear(txn); "()".into() }
        (Op::XmlInsertElem { idx, tag, .. }, Out::YXmlFragment(x)) => { let e = x.insert(txn, *idx, XmlElementPrelim::empty(tag.as_str())); format!("kind={} tag={:?}", y::Y_XML_ELEM, Some(e.tag().to_string())) }
        (Op::XmlInsertElem { idx, tag, .. }, Out::YXmlElement(x)) => { let e = x.insert(txn, *idx, XmlElementPrelim::empty(tag.as_str())); format!("kind={} tag={:?}", y::Y_XML_ELEM, Some(e.tag().to_string())) }
        (Op::XmlInsertText { idx, .. }, Out::YXmlFragment(x)) => { x.insert(txn, *idx, XmlTextPrelim::new("")); format!("kind={}", y::Y_XML_TEXT) }
        (Op::XmlInsertText { idx, .. }, Out::YXmlElement(x)) => { x.insert(txn, *idx, XmlTextPrelim::new("")); format!("kind={}", y::Y_XML_TEXT) }
        (Op::XmlRemove { idx, len, .. }, Out::YXmlFragment(x)) => { x.remove_range(txn, *idx, *len); "()".into() }
        (Op::XmlRemove { idx, len, .. }, Out::YXmlElement(x)) => { x.remove_range(txn, *idx, *len); "()".into() }
        (Op::XmlAttr { name, value, .. }, Out::YXmlElement(x)) => { x.insert_attribute(txn, name.as_str(), value.to_any()); "()".into() }
        (Op::XmlAttr { name, value, .. }, Out::YXmlText(x)) => { x.insert_attribute(txn, name.as_str(), value.to_any()); "()".into() }
        (Op::XmlRemoveAttr { name, .. }, Out::YXmlElement(x)) => { x.remove_attribute(txn, name); "()".into() }
        (Op::XmlRemoveAttr { name, .. }, Out::YXmlText(x)) => { x.remove_attribute(txn, name); "()".into() }
        _ => panic!("harness: op {} does not fit twin target kind {}", op.show(), kind_of_out(&target)),
    }
}

// ---------------------------------------------------------------------------------------------------------
// HashMap order: a json map with several keys is encoded, and formatting attributes with several keys are integrated, in
// the iteration order of a std HashMap with a per-instance random state - two native documents fed the same calls do
// not produce the same bytes either. Programs of "exact" cases are pruned to single-key maps / attributes (bytes must
// then be equal); the other cases keep them and compare encoded state up to a permutation of the bytes.
// ---------------------------------------------------------------------------------------------------------
fn prune_j(j: &mut J) {
    match j {
        J::Map(m) => { m.truncate(1); for (_, v) in m.iter_mut() { prune_j(v); } }
        J::Arr(v) => for x in v.iter_mut() { prune_j(x); },
        J::Raw(s) => if s.matches(':').count() > 1 { *s = "{\"a\":[1,\"b\"]}".to_string(); },
        _ => {}
    }
}
fn prune_val(v: &mut Val) { match v { Val::J(j) => prune_j(j), Val::YArr(vs) => for x in vs.iter_mut() { prune_val(x); }, Val::YMap(m) => for (_, x) in m.iter_mut() { prune_val(x); }, _ => {} } }
fn prune_attrs(a: &mut AttrsJ) { a.truncate(1); for (_, v) in a.iter_mut() { prune_j(v); } }
pub fn prune_op(op: &mut Op) {
    match op {
        Op::TextInsert { attrs, .. } => if let Some(a) = attrs { prune_attrs(a) },
        Op::TextFormat { attrs, .. } => prune_attrs(attrs),
        Op::TextEmbed { content, attrs, .. } => { prune_val(content); if let Some(a) = attrs { prune_attrs(a) } }
        Op::TextDelta { retain_attrs, insert, .. } => { if let Some(a) = retain_attrs { prune_attrs(a) } if let Some((_, Some(a))) = insert { prune_attrs(a) } }
        Op::ArrInsert { vals, .. } => for v in vals.iter_mut() { prune_val(v) },
        Op::MapInsert { val, .. } => prune_val(val),
        Op::XmlAttr { value, .. } => prune_j(value),
        _ => {}
    }
}
/// keep multi-key json maps but only single-key formatting attributes (the order of the format items is structural)
/// Also an insertion with ONE attribute becomes several format items when other attributes are active at the position (they
/// are negated, `unset_missing`, through the same HashMap): such cases use one attribute key throughout.
pub fn prune_op_attrs(op: &mut Op, key: &str) {
    let one = |a: &mut AttrsJ| { a.truncate(1); for (k, _) in a.iter_mut() { *k = key.to_string(); } };
    match op {
        Op::TextInsert { attrs: Some(a), .. } | Op::TextEmbed { attrs: Some(a), .. } => one(a),
        Op::TextFormat { attrs, .. } => one(attrs),
        Op::TextDelta { retain_attrs, insert, .. } => { if let Some(a) = retain_attrs { one(a) } if let Some((_, Some(a))) = insert { one(a) } }
        _ => {}
    }
}
pub const FORMAT_KEYS: [&str; 4] = FMT_KEYS;

/// formatting attributes and embeds travel as JSON text inside updates: in the cases that compare a replica that received
/// them through an update, keep their values JSON-representable (numbers finite, no undefined / binary / 64-bit integers)
fn json_safe_j(j: &mut J) {
    match j {
        J::Undef => *j = J::Null, J::Int(i) => *j = J::Num(if i.unsigned_abs() < (1 << 53) { *i as f64 } else { 1.0 }), J::Buf(_) => *j = J::Arr(vec![J::Str("buf".into())]),
        // serde_json reads integers beyond 2^53 back as 64-bit integers and long decimal expansions one ulp off
        J::Num(f) => if !f.is_finite() { *f = 0.5 } else if *f == 0.0 { *f = 0.0 } else if f.abs() >= 4503599627370496.0 || (f.fract() != 0.0 && (f.abs() > 1e6 || f.abs() < 1e-3)) { *f = 0.25 },
        J::Arr(v) => for x in v.iter_mut() { json_safe_j(x) }, J::Map(m) => for (_, x) in m.iter_mut() { json_safe_j(x) }, _ => {}
    }
}
pub fn json_safe_op(op: &mut Op) {
    let fa = |a: &mut AttrsJ| for (_, v) in a.iter_mut() { json_safe_j(v) };
    match op {
        Op::TextInsert { attrs: Some(a), .. } => fa(a), Op::TextFormat { attrs, .. } => fa(attrs),
        Op::TextEmbed { content, attrs, .. } => { if let Val::J(j) = content { json_safe_j(j) } if let Some(a) = attrs { fa(a) } }
        Op::TextDelta { retain_attrs, insert, .. } => { if let Some(a) = retain_attrs { fa(a) } if let Some((_, Some(a))) = insert { fa(a) } }
        _ => {}
    }
}
