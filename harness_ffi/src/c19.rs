//! C19: driving a document through the exported C functions (yffi) has exactly the effect of the corresponding native calls.
//!
//! A case is one seeded random program (20-60 operations in transactions of 1-4 operations) executed at the same time on
//! doc C - created by `ydoc_new_with_options` and touched only through exported C functions, every value built with the
//! `yinput_*` constructors - and on a twin `yrs::Doc` with the same options driven by the native calls. After every
//! transaction the encoded state (v1, v2, state vector), everything readable through the C getters (compared with the Rust
//! API on doc C itself and on the twin), every output cell (also against the Coq model), observers' events, sticky
//! indexes, snapshots and the undo manager's stacks must agree; a share of the cases adds a third native replica that
//! exchanges updates with C through `ytransaction_apply*` / `ytransaction_state_diff_*` and must converge.
mod docobs;
mod obs;
mod ops;
mod vals;
mod walk;

use crate::report::{catch, Report};
use crate::rng::Rng;
use crate::yffi as y;
use docobs::*;
use obs::*;
use ops::*;
use serde_json::json;

use std::collections::BTreeMap;
use std::ffi::{c_char, c_void, CString};
use std::panic::AssertUnwindSafe;
use std::ptr::{null, null_mut};

use vals::*;
use walk::*;
use yrs::block::ClientID;
use yrs::branch::BranchPtr;
use yrs::encoding::read::Error as ReadError;
use yrs::undo::UndoManager;
use yrs::updates::decoder::Decode;
use yrs::updates::encoder::{Encode, Encoder, EncoderV1, EncoderV2};
use yrs::{Assoc, DeepObservable, Doc, Observable, OffsetKind, Options, Out, ReadTxn, Snapshot, StateVector, StickyIndex, Subscription, Transact, Update};

pub type Fail = serde_json::Value;
macro_rules! fail { ($class:expr, $($k:literal : $v:expr),* $(,)?) => { return Err(json!({"class": $class, $($k: $v),*})) } }

pub fn cases(tier: &str) -> u64 { if tier == "thorough" { 12000 } else { 600 } }
pub fn notes() -> Vec<String> {
    vec!["C19 case: one seeded random program of 20-60 shared-type operations (text, array, map, XML, nested types, every input cell kind, non-ASCII strings) in transactions of 1-4 operations, executed on doc C only through the exported C functions of yffi (compiled into the harness) and on a native twin yrs::Doc with the same options. After every transaction encoded state v1/v2, state vector, all C getters / iterators / output cells (vs the Rust API on doc C, vs the twin, json cells vs the Coq model), leak probes, and - per case mode - observers' events, sticky indexes, snapshots, undo/redo stacks and update exchange with a third native replica are compared.".to_string()]
}

pub fn run_range(_tier: &str, seed: u64, lo: u64, hi: u64) -> Report {
    let mut rep = Report::default();
    let mut model = ModelBox::new();
    let debug = std::env::var("YV_DEBUG").is_ok();
    let mut cnt: BTreeMap<String, u64> = BTreeMap::new();
    for index in lo..hi {
        rep.evaluations += 1;
        let mut script: Vec<String> = vec![];
        let mut info = Info::default();
        let mut cx = Cx { rep: &mut rep, model: &mut model, cnt: std::mem::take(&mut cnt) };
        let res = catch(AssertUnwindSafe(|| unsafe { run_case(seed, index, &mut script, &mut cx, &mut info, debug) }));
        cnt = std::mem::take(&mut cx.cnt);
        drop(cx);
        let case = json!({"stream": 19, "index": index, "seed": seed});
        match res {
            Ok(Ok(())) => {}
            Ok(Err(mut f)) => { f["property"] = json!("C19"); f["case"] = case.clone(); f["script"] = json!(script); if debug { eprintln!("FAIL {}", f); } rep.fail(f); }
            Err(msg) => { rep.fail(json!({"property": "C19", "class": "rust-side-panicked", "error": msg, "case": case.clone(), "script": script})); }
        }
        for part in info.mode.split('+') { rep.count(&format!("mode:{}", part)); }
        if info.nested || info.exchange { rep.nontrivial_case(&script.join("\n")); }
        if index % 97 == 0 { rep.sample(json!({"case": case, "mode": info.mode, "script_head": script.iter().take(12).collect::<Vec<_>>()})); }
    }
    for (k, v) in cnt { rep.add(&k, v); }
    rep
}

#[derive(Default)]
struct Info { mode: String, nested: bool, exchange: bool }

struct CSide { doc: *mut y::Doc, roots: [*mut y::Branch; 4], txn: *mut y::Transaction, subs: Vec<*mut y::Subscription>, states: Vec<*mut ObsState>, stickies: Vec<*mut y::YStickyIndex>, mgr: *mut y::YUndoManager, dobs: *mut DocObs }
impl Drop for CSide {
    fn drop(&mut self) {
        unsafe {
            if !self.txn.is_null() { y::ytransaction_commit(self.txn); }
            for s in self.subs.drain(..) { y::yunobserve(s); }
            if !self.mgr.is_null() { y::yundo_manager_destroy(self.mgr); }
            for s in self.stickies.drain(..) { y::ysticky_index_destroy(s); }
            for s in self.states.drain(..) { drop(Box::from_raw(s)); }
            if !self.dobs.is_null() { drop(Box::from_raw(self.dobs)); }
            y::ydoc_destroy(self.doc);
        }
    }
}
struct StickyPair { c: usize, r: StickyIndex, same: StickyIndex, desc: String }

fn mk_doc(client: u64, skip_gc: bool) -> Doc {
    Doc::with_options(Options { client_id: ClientID::new(client), guid: "c19".into(), collection_id: None, offset_kind: OffsetKind::Utf16, skip_gc, auto_load: false, should_load: true, cleanup_formatting: false })
}
fn roots_of(doc: &Doc) -> [Out; 4] { [Out::YText(doc.get_or_insert_text("t")), Out::YArray(doc.get_or_insert_array("a")), Out::YMap(doc.get_or_insert_map("m")), Out::YXmlFragment(doc.get_or_insert_xml_fragment("x"))] }
fn read_err_code(e: &ReadError) -> u8 {
    match e { ReadError::InvalidVarInt => y::ERR_CODE_VAR_INT, ReadError::EndOfBuffer(_) => y::ERR_CODE_EOS, ReadError::UnexpectedValue => y::ERR_CODE_UNEXPECTED_VALUE, ReadError::InvalidJSON(_) => y::ERR_CODE_INVALID_JSON, ReadError::NotEnoughMemory(_) => y::ERR_NOT_ENOUGH_MEMORY, ReadError::TypeMismatch(_) => y::ERR_TYPE_MISMATCH, ReadError::Custom(_) => y::ERR_CUSTOM }
}

unsafe fn open_write(c: &mut CSide, origin: Option<&str>) -> Result<(), Fail> {
    let t = match origin { None => y::ydoc_write_transaction(c.doc, 0, null()), Some(o) => y::ydoc_write_transaction(c.doc, o.len() as u32, o.as_ptr() as *const c_char) };
    if t.is_null() { fail!("transaction-not-created", "detail": "ydoc_write_transaction returned NULL with no transaction open"); }
    if y::ytransaction_writeable(t) != 1 { y::ytransaction_commit(t); fail!("transaction-writeable-differs", "detail": "write transaction reports not writeable"); }
    c.txn = t; Ok(())
}
unsafe fn commit(c: &mut CSide) { let t = c.txn; c.txn = null_mut(); y::ytransaction_commit(t); }

/// encoded state and state vector of doc C (through transaction `ct`) against the twin's
/// equal bytes; in cases that keep multi-key json maps / attributes (HashMap order, see ops.rs) equal up to a permutation
fn bytes_match(cx: &mut Cx, c: Option<&[u8]>, r: &[u8], exact: bool) -> bool { bytes_match_v(cx, c, r, exact, false) }
fn bytes_match_quiet(a: &[u8], b: &[u8], exact: bool) -> bool { if a == b { return true; } if exact || a.len() != b.len() { return false; } let (mut x, mut y) = (a.to_vec(), b.to_vec()); x.sort(); y.sort(); x == y }
fn bytes_match_v(cx: &mut Cx, c: Option<&[u8]>, r: &[u8], exact: bool, v2: bool) -> bool {
    if v2 && !exact && c.is_some() && c != Some(r) {
        // the v2 column compression depends on the order of the entries: compare the v1 re-encodings up to a permutation
        return match (Update::decode_v2(c.unwrap()), Update::decode_v2(r)) { (Ok(a), Ok(b)) => bytes_match_v(cx, Some(&a.encode_v1()), &b.encode_v1(), false, false), _ => false };
    }
    match c { None => false, Some(c) if c == r => true, Some(c) => { if exact || c.len() != r.len() { return false; } let (mut a, mut b) = (c.to_vec(), r.to_vec()); a.sort(); b.sort(); if a == b { cx.add("state_bytes_equal_up_to_permutation", 1); true } else { false } } }
}
/// Canonical, unit-level rendering of the store an update produces in a fresh document: invariant under the way runs of
/// items / collected ranges are split into blocks and under the entry order of json maps - the two things that depend on
/// std HashMap iteration order inside yrs and differ between two native documents fed the same calls.
fn canon_of_update(bytes: &[u8], v2: bool) -> Option<String> {
    use yrs::verif::{dump_store, VBlock, VContent, VParent};
    let u = if v2 { Update::decode_v2(bytes).ok()? } else { Update::decode_v1(bytes).ok()? };
    let d = mk_doc(99, true); d.transact_mut().apply_update(u).ok()?;
    let txn = d.transact(); let vs = dump_store(&txn);
    let pid = |i: &Option<yrs::ID>| i.map(|i| format!("{}:{}", i.client.get(), i.clock)).unwrap_or_else(|| "-".into());
    let mut out = String::new();
    if vs.has_pending || vs.has_pending_ds { out.push_str("PENDING "); }
    for (c, blocks) in &vs.blocks { for b in blocks { match b {
        VBlock::GC(id, len) => for k in 0..*len { out.push_str(&format!("{}:{}=G;", c, id.clock + k)); },
        VBlock::Skip(id, len) => out.push_str(&format!("{}:{}=S{};", c, id.clock, len)),
        VBlock::Item(it) => {
            let parent = match &it.parent { VParent::Root(n) => format!("R{}", hx(n.as_bytes())), VParent::Nested(i) => format!("N{}:{}", i.client.get(), i.clock), VParent::Unknown => "?".into() };
            let units: Vec<String> = match &it.content {
                VContent::Any(v) => v.iter().map(jany_of_any).collect(), VContent::Binary(b) => vec![format!("b{}", hx(b))], VContent::Deleted(n) => vec!["x".to_string(); *n as usize],
                VContent::Doc(g) => vec![format!("d{}", g)], VContent::Json(v) => v.iter().map(|s| format!("j{}", hx(s.as_bytes()))).collect(), VContent::Embed(a) => vec![format!("e{}", jany_of_any(a))],
                VContent::Format(k, a) => vec![format!("f{}={}", hx(k.as_bytes()), jany_of_any(a))], VContent::String(st) => st.encode_utf16().map(|u| format!("u{:x}", u)).collect(), VContent::Type(t) => vec![format!("t{:?}", t)],
            };
            for k in 0..it.len {
                let origin = if k == 0 { pid(&it.origin) } else { format!("{}:{}", c, it.id.clock + k - 1) };
                out.push_str(&format!("{}:{}{}={} o{} r{} p{}/{};", c, it.id.clock + k, if it.deleted { "~" } else { "" }, units.get(k as usize).cloned().unwrap_or_else(|| "?".into()), origin, pid(&it.right_origin), parent, it.parent_sub.as_deref().map(|s| hx(s.as_bytes())).unwrap_or_default()));
            }
        }
    } } }
    Some(out)
}
/// full-state payloads: equal bytes, or (HashMap order inside yrs, see above) equal canonical stores
fn state_match(cx: &mut Cx, c: Option<&[u8]>, r: &[u8], v2: bool, exact: bool, exact_cases_too: &mut bool) -> bool {
    match c { None => false, Some(c) if c == r => { cx.add("state_payloads_byte_equal", 1); true } Some(c) => match (canon_of_update(c, v2), canon_of_update(r, v2)) { (Some(a), Some(b)) if a == b => { cx.add(if exact { "state_bytes_differ_but_canonical_stores_equal(single-key cases)" } else { "state_bytes_differ_but_canonical_stores_equal" }, 1); *exact_cases_too = true; true } _ => false } }
}
unsafe fn compare_state<T: ReadTxn>(cx: &mut Cx, ct: *mut y::Transaction, rtx: &T, alt: bool, exact: bool, skip_bytes: bool, tolerate: &mut bool) -> Result<(), Fail> {
    let empty_sv = StateVector::default().encode_v1();
    let (svp, svl) = if alt { (empty_sv.as_ptr() as *const c_char, empty_sv.len() as u32) } else { (null(), 0) };
    let mut n = 0u32;
    // the twin first: if the native encoder panics on the twin's (identically built) store, the C function would abort on doc C's
    let (r1, r2, rs) = match catch(AssertUnwindSafe(|| (rtx.encode_state_as_update_v1(&StateVector::default()), rtx.encode_state_as_update_v2(&StateVector::default()), rtx.state_vector().encode_v1()))) {
        Ok(x) => x, Err(e) => fail!("native-call-panics", "function": "ytransaction_state_diff_v1", "op": "encode_state_as_update on the twin after the last transaction of the script", "panic": e, "detail": "the native encoder panicked on the twin's store; the C function was not called (it would abort)"),
    };
    // with an update pending (waiting for missing dependencies) the C function encodes the integrated store only (encode_diff);
    // the native encode_state_as_update_* appends the pending payload - there the corresponding native call is encode_diff_*
    let (r1, r2) = if rtx.store().pending_update().is_some() || rtx.store().pending_ds().is_some() {
        let (d1, d2) = (rtx.encode_diff_v1(&StateVector::default()), rtx.encode_diff_v2(&StateVector::default()));
        cx.add(if d1 != r1 { "pending:state_diff_equals_encode_diff_not_encode_state_as_update" } else { "pending:encode_diff_equals_encode_state_as_update" }, 1);
        (d1, d2)
    } else { (r1, r2) };
    let c1 = take_binary(y::ytransaction_state_diff_v1(ct, svp, svl, &mut n), n); cx.used("ytransaction_state_diff_v1");
    if skip_bytes { if c1.is_none() { fail!("encoded-state-differs", "encoding": "v1", "c": "NULL"); } cx.add("state_compare_skipped_multi_key_attrs", 1); }
    else if !state_match(cx, c1.as_deref(), &r1, false, exact, tolerate) { fail!("encoded-state-differs", "encoding": "v1", "c": c1.map(|b| hx(&b)), "twin": hx(&r1)); }
    let c2 = take_binary(y::ytransaction_state_diff_v2(ct, svp, svl, &mut n), n); cx.used("ytransaction_state_diff_v2");
    if skip_bytes { if c2.is_none() { fail!("encoded-state-differs", "encoding": "v2", "c": "NULL"); } }
    else if !state_match(cx, c2.as_deref(), &r2, true, exact, tolerate) { fail!("encoded-state-differs", "encoding": "v2", "c": c2.map(|b| hx(&b)), "twin": hx(&r2)); }
    let cs = take_binary(y::ytransaction_state_vector_v1(ct, &mut n), n); cx.used("ytransaction_state_vector_v1");
    if cs.as_deref() != Some(&rs[..]) && !skip_bytes {
        let same = cs.as_ref().and_then(|b| StateVector::decode_v1(b).ok()).map(|s| s == rtx.state_vector()).unwrap_or(false);
        if same { cx.add("state_vector_bytes_differ_in_client_order_only", 1); } else { fail!("state-vector-differs", "c": cs.map(|b| hx(&b)), "twin": hx(&rs)); }
    }
    cx.add("state_bytes_compared", (r1.len() + r2.len() + rs.len()) as u64);
    Ok(())
}

unsafe fn run_case(seed: u64, index: u64, script: &mut Vec<String>, cx: &mut Cx, info: &mut Info, debug: bool) -> Result<(), Fail> {
    let mut r = Rng::for_case(seed, 19, index);
    let skip_gc = r.chance(1, 2);
    let undo = r.chance(1, 5);
    let exchange = !undo && r.chance(2, 5);
    let observers = r.chance(1, 3);
    let sticky = r.chance(1, 3);
    let snapshots = r.chance(1, 2);
    let origin: Option<&str> = if r.chance(1, 3) { Some("me") } else { None };
    let exact = r.chance(1, 2); // programs pruned to single-key json maps / attributes: encoded bytes must be equal
    // multi-key formatting attributes are integrated in HashMap order (different items, even a different number of items): only in
    // plain cases, and the encoded state is then not compared (content, cells, state vector still are)
    let multi_attrs = !exact && !exchange && !undo && r.chance(1, 2);
    let fmt_key: &str = *r.pick(&FORMAT_KEYS);
    let (observers, sticky) = (observers && !multi_attrs, sticky && !multi_attrs); // the items (ids, event deltas) of multi-key formatting differ between native documents too
    let docobs = r.chance(1, 2);
    let force_gc = !undo && r.chance(1, 4);
    let gen = GenCfg { text: true, array: true, map: true, xml: !undo, nested: !undo };
    info.mode = format!("{}{}{}{}{}", if undo { "undo" } else if exchange { "exchange" } else { "plain" }, if observers { "+obs" } else { "" }, if sticky { "+sticky" } else { "" }, if snapshots { "+snap" } else { "" }, if skip_gc { "+skipgc" } else { "+gc" }) + if exact { "+exact" } else if multi_attrs { "+multikey-maps-and-attrs" } else { "+multikey-maps" } + if docobs { "+docobs" } else { "" } + if force_gc { "+forcegc" } else { "" };
    info.exchange = exchange;
    script.push(format!("mode {} origin={:?}", info.mode, origin));
    macro_rules! log { ($($a:tt)*) => {{ let s = format!($($a)*); if debug { eprintln!("{}", s); } script.push(s); }} }

    // ---- the three documents
    let guid = CString::new("c19").unwrap();
    let copts = y::YOptions { id: 1, guid: guid.as_ptr(), collection_id: null(), flags: y::Y_OFFSET_UTF16 | y::Y_SHOULD_LOAD | if skip_gc { y::Y_SKIP_GC } else { 0 } };
    let cdoc = y::ydoc_new_with_options(copts); cx.used("ydoc_new_with_options");
    let names: Vec<CString> = ROOT_NAMES.iter().map(|n| CString::new(*n).unwrap()).collect();
    let mut c = CSide { doc: cdoc, roots: [y::ytext(cdoc, names[0].as_ptr()), y::yarray(cdoc, names[1].as_ptr()), y::ymap(cdoc, names[2].as_ptr()), y::yxmlfragment(cdoc, names[3].as_ptr())], txn: null_mut(), subs: vec![], states: vec![], stickies: vec![], mgr: null_mut(), dobs: Box::into_raw(Box::new(DocObs::default())) };
    let same_doc: &Doc = &*cdoc; // the Box<yrs::Doc> behind the handle, for reading doc C through the Rust API
    let sroots = roots_of(same_doc);
    let rdoc = mk_doc(1, skip_gc); let rroots = roots_of(&rdoc);
    // a second native twin fed the same native calls: where two NATIVE documents already disagree about the encoded bytes (std HashMap
    // iteration order inside yrs), a disagreement between doc C and the twin says nothing about the C layer
    let r2doc = mk_doc(1, skip_gc); let r2roots = roots_of(&r2doc); let mut tolerate_bytes = false;
    let q = if exchange { Some(mk_doc(3, skip_gc)) } else { None }; let qroots = q.as_ref().map(roots_of);
    let qlog: std::sync::Arc<std::sync::Mutex<Vec<Vec<u8>>>> = Default::default();
    let _qsub = q.as_ref().map(|q| { let l = qlog.clone(); q.observe_update_v1(move |_, e| l.lock().unwrap().push(e.update.clone())).unwrap() });
    let mut pending_left = if exchange && r.chance(1, 3) { 1 } else { 0 };
    if y::ydoc_id(cdoc) != 1 { fail!("doc-options-differ", "ydoc_id": y::ydoc_id(cdoc)); }
    let g = take_string(y::ydoc_guid(cdoc)); if g.as_deref() != Some("c19") { fail!("doc-options-differ", "ydoc_guid": g); }
    if same_doc.skip_gc() != skip_gc || y::ydoc_should_load(cdoc) != 1 || y::ydoc_auto_load(cdoc) != 0 || !take_string(y::ydoc_collection_id(cdoc)).is_none() { fail!("doc-options-differ", "detail": "flags"); }
    for i in 0..4 { if branch_of_out(&sroots[i]) != c.roots[i] as *const y::Branch || y::ytype_kind(c.roots[i]) != ROOT_KINDS[i] { fail!("branch-pointer-differs", "at": ROOT_NAMES[i], "detail": "root constructor"); } }

    { // a clone of the handle is the same document
        let cl = y::ydoc_clone(cdoc); cx.used("ydoc_clone");
        let same = y::ydoc_id(cl) == 1 && y::ytext(cl, names[0].as_ptr()) == c.roots[0];
        y::ydoc_destroy(cl);
        if !same { fail!("doc-options-differ", "detail": "ydoc_clone does not refer to the same document"); }
    }
    // ---- document-level observers: the update payloads and transaction summaries the C callbacks receive against the twin's
    let rdobs: std::sync::Arc<std::sync::Mutex<DocObs>> = Default::default(); let mut rdsubs: Vec<Subscription> = vec![];
    if docobs {
        c.subs.push(y::ydoc_observe_updates_v1(cdoc, c.dobs as *mut c_void, upd_v1_cb)); c.subs.push(y::ydoc_observe_updates_v2(cdoc, c.dobs as *mut c_void, upd_v2_cb)); c.subs.push(y::ydoc_observe_after_transaction(cdoc, c.dobs as *mut c_void, after_cb));
        for f in ["ydoc_observe_updates_v1", "ydoc_observe_updates_v2", "ydoc_observe_after_transaction"] { cx.used(f); }
        let l = rdobs.clone(); rdsubs.push(rdoc.observe_update_v1(move |_, e| l.lock().unwrap().v1.push(e.update.clone())).unwrap());
        let l = rdobs.clone(); rdsubs.push(rdoc.observe_update_v2(move |_, e| l.lock().unwrap().v2.push(e.update.clone())).unwrap());
        let l = rdobs.clone(); rdsubs.push(rdoc.observe_transaction_cleanup(move |_, e| l.lock().unwrap().after.push(format!("before={} after={} deleted={}", r_sv(&e.before_state), r_sv(&e.after_state), r_ids(&e.delete_set)))).unwrap());
    }
    // ---- observers
    let mut rlogs: Vec<Log> = vec![]; let mut rsubs: Vec<Subscription> = vec![]; let mut obs_names: Vec<&str> = vec![];
    if observers {
        let mut st = |target: *mut y::Branch| -> *mut ObsState { let p = Box::into_raw(Box::new(ObsState { log: vec![], target: target as *const y::Branch, cells: 0, calls: 0 })); c.states.push(p); p };
        let (s0, s1, s2, s3, s4, s5) = (st(c.roots[0]), st(c.roots[1]), st(c.roots[2]), st(c.roots[3]), st(c.roots[1]), st(c.roots[2]));
        c.subs.push(y::ytext_observe(c.roots[0], s0 as *mut c_void, text_cb)); c.subs.push(y::yarray_observe(c.roots[1], s1 as *mut c_void, array_cb));
        c.subs.push(y::ymap_observe(c.roots[2], s2 as *mut c_void, map_cb)); c.subs.push(y::yxmlelem_observe(c.roots[3], s3 as *mut c_void, xml_cb));
        c.subs.push(y::yobserve_deep(c.roots[1], s4 as *mut c_void, deep_cb)); c.subs.push(y::yobserve_deep(c.roots[2], s5 as *mut c_void, deep_cb));
        for f in ["ytext_observe", "yarray_observe", "ymap_observe", "yxmlelem_observe", "yobserve_deep"] { cx.used(f); }
        obs_names = vec!["ytext_observe(t)", "yarray_observe(a)", "ymap_observe(m)", "yxmlelem_observe(x)", "yobserve_deep(a)", "yobserve_deep(m)"];
        for _ in 0..6 { rlogs.push(std::sync::Arc::new(std::sync::Mutex::new(vec![]))); }
        if let [Out::YText(t), Out::YArray(a), Out::YMap(m), Out::YXmlFragment(x)] = &rroots {
            let l = rlogs[0].clone(); rsubs.push(t.observe(move |txn, e| l.lock().unwrap().push(format!("text target_ok=true path={} delta={}", r_path(&e.path()), r_text_delta(e.delta(txn))))));
            let l = rlogs[1].clone(); rsubs.push(a.observe(move |txn, e| l.lock().unwrap().push(format!("array target_ok=true path={} delta={}", r_path(&e.path()), r_changes(e.delta(txn))))));
            let l = rlogs[2].clone(); rsubs.push(m.observe(move |txn, e| l.lock().unwrap().push(format!("map target_ok=true path={} keys={}", r_path(&e.path()), r_keys(e.keys(txn))))));
            let l = rlogs[3].clone(); rsubs.push(x.observe(move |txn, e| l.lock().unwrap().push(format!("xml target_ok=true path={} delta={} keys={}", r_path(&e.path()), r_changes(e.delta(txn)), r_keys(e.keys(txn))))));
            let l = rlogs[4].clone(); rsubs.push(a.observe_deep(move |txn, evs| l.lock().unwrap().push(r_deep(txn, evs))));
            let l = rlogs[5].clone(); rsubs.push(m.observe_deep(move |txn, evs| l.lock().unwrap().push(r_deep(txn, evs))));
        }
    }
    // ---- undo managers
    let mut rmgr: Option<UndoManager<()>> = None; let mut rmgr2: Option<UndoManager<()>> = None;
    if undo {
        let o = y::YUndoManagerOptions { capture_timeout_millis: 0 };
        c.mgr = y::yundo_manager(&o); cx.used("yundo_manager");
        let mut m: UndoManager<()> = UndoManager::with_options(yrs::undo::Options { capture_timeout_millis: 0, ..Default::default() });
        let mut m2: UndoManager<()> = UndoManager::with_options(yrs::undo::Options { capture_timeout_millis: 0, ..Default::default() });
        let mut scope: Vec<usize> = vec![0, 1, 2]; r.shuffle(&mut scope); scope.truncate(r.range(1, 2) as usize);
        for i in &scope {
            y::yundo_manager_add_scope(c.mgr, c.doc, c.roots[*i]); cx.used("yundo_manager_add_scope");
            match &rroots[*i] { Out::YText(t) => m.expand_scope(&rdoc, t), Out::YArray(t) => m.expand_scope(&rdoc, t), Out::YMap(t) => m.expand_scope(&rdoc, t), _ => {} }
            match &r2roots[*i] { Out::YText(t) => m2.expand_scope(&r2doc, t), Out::YArray(t) => m2.expand_scope(&r2doc, t), Out::YMap(t) => m2.expand_scope(&r2doc, t), _ => {} }
        }
        if let Some(o) = origin { y::yundo_manager_add_origin(c.mgr, o.len() as u32, o.as_ptr() as *const c_char); cx.used("yundo_manager_add_origin"); m.include_origin(o); m2.include_origin(o); }
        c.subs.push(y::yundo_manager_observe_added(c.mgr, c.dobs as *mut c_void, undo_added_cb)); c.subs.push(y::yundo_manager_observe_popped(c.mgr, c.dobs as *mut c_void, undo_popped_cb)); cx.used("yundo_manager_observe_added"); cx.used("yundo_manager_observe_popped");
        let norm = |o: Option<&yrs::Origin>| match o { None => "none".to_string(), Some(o) if o.as_ref() == b"me" => hx(b"me"), Some(_) => "mgr".to_string() };
        let l = rdobs.clone(); rdsubs.push(m.observe_item_added(move |_, e| l.lock().unwrap().undo_added.push(format!("kind={} origin={} meta_null=true", match e.kind() { yrs::undo::EventKind::Undo => 0, yrs::undo::EventKind::Redo => 1 }, norm(e.origin())))));
        let l = rdobs.clone(); rdsubs.push(m.observe_item_popped(move |_, e| l.lock().unwrap().undo_popped.push(format!("kind={} origin={} meta_null=true", match e.kind() { yrs::undo::EventKind::Undo => 0, yrs::undo::EventKind::Redo => 1 }, norm(e.origin())))));
        log!("undo manager over {:?}", scope.iter().map(|i| ROOT_NAMES[*i]).collect::<Vec<_>>());
        rmgr = Some(m); rmgr2 = Some(m2);
    }
    let mut stickies: Vec<StickyPair> = vec![];
    let mut snaps: Vec<Vec<u8>> = vec![];

    // ---- everything that is compared after a step
    macro_rules! compare_all { () => {{
        let ct = y::ydoc_read_transaction(c.doc); cx.used("ydoc_read_transaction");
        if ct.is_null() { fail!("transaction-not-created", "detail": "ydoc_read_transaction returned NULL with no transaction open"); }
        c.txn = ct;
        if y::ytransaction_writeable(ct) != 0 { fail!("transaction-writeable-differs", "detail": "read transaction reports writeable"); }
        let stx = same_doc.transact(); let rtx = rdoc.transact();
        if !tolerate_bytes && !multi_attrs {
            let r2x = r2doc.transact();
            let same = catch(AssertUnwindSafe(|| bytes_match_quiet(&rtx.encode_state_as_update_v1(&StateVector::default()), &r2x.encode_state_as_update_v1(&StateVector::default()), exact))).unwrap_or(true);
            if !same { tolerate_bytes = true; cx.add("cases_where_two_native_twins_encode_differently", 1); }
        }
        compare_state(cx, ct, &rtx, r.chance(1, 2), exact, multi_attrs, &mut tolerate_bytes)?;
        { let nm = CString::new("t").unwrap(); if y::ytype_get(ct, nm.as_ptr()) != c.roots[0] { fail!("branch-pointer-differs", "at": "t", "detail": "ytype_get"); } let no = CString::new("never-defined").unwrap(); if !y::ytype_get(ct, no.as_ptr()).is_null() { fail!("branch-pointer-differs", "at": "never-defined", "detail": "ytype_get of an undefined root is not NULL"); } }
        for i in 0..4 { walk(cx, ct, c.roots[i], &sroots[i], &stx, &rroots[i], &rtx, ROOT_NAMES[i], 0)?; }
        // document-level observers
        {
            let co = std::mem::take(&mut *c.dobs); let ro = std::mem::take(&mut *rdobs.lock().unwrap());
            let norm_c = |v: Vec<String>| -> Vec<String> { v.into_iter().map(|s| { let p = s.find("origin=").unwrap_or(0); let q = s[p..].find(' ').map(|i| p + i).unwrap_or(s.len()); let o = &s[p + 7..q]; if o == "none" || o == hx(b"me") { s.clone() } else { format!("{}origin=mgr{}", &s[..p], &s[q..]) } }).collect() };
            if docobs {
                if co.v1.len() != ro.v1.len() || co.v2.len() != ro.v2.len() { fail!("update-event-differs", "detail": "number of update events", "c_v1": co.v1.len(), "twin_v1": ro.v1.len(), "c_v2": co.v2.len(), "twin_v2": ro.v2.len()); }
                for (a, b) in co.v1.iter().zip(ro.v1.iter()) { cx.add("update_events_compared", 1); cx.add("state_bytes_compared", b.len() as u64); if !multi_attrs && !tolerate_bytes && !bytes_match(cx, Some(a), b, exact) { fail!("update-event-differs", "encoding": "v1", "c": hx(a), "twin": hx(b)); } }
                for (a, b) in co.v2.iter().zip(ro.v2.iter()) { cx.add("update_events_compared", 1); cx.add("state_bytes_compared", b.len() as u64); if !multi_attrs && !tolerate_bytes && !bytes_match_v(cx, Some(a), b, exact, true) { fail!("update-event-differs", "encoding": "v2", "c": hx(a), "twin": hx(b)); } }
                cx.add("after_transaction_events_compared", ro.after.len() as u64);
                if !multi_attrs && !tolerate_bytes && co.after != ro.after { fail!("after-transaction-event-differs", "c": co.after, "twin": ro.after); }
            }
            let (ca, cp) = (norm_c(co.undo_added), norm_c(co.undo_popped));
            cx.add("undo_events_compared", (ro.undo_added.len() + ro.undo_popped.len()) as u64);
            if ca != ro.undo_added || cp != ro.undo_popped { fail!("undo-event-differs", "c_added": ca, "twin_added": ro.undo_added, "c_popped": cp, "twin_popped": ro.undo_popped); }
        }
        // pending structures: nothing is ever pending in these programs, on either side
        {
            let pu = y::ytransaction_pending_update(ct); let pd = y::ytransaction_pending_ds(ct); cx.used("ytransaction_pending_update"); cx.used("ytransaction_pending_ds");
            let (ru, rd) = (rtx.store().pending_update().is_some(), rtx.store().pending_ds().is_some());
            let (cu, cd) = (!pu.is_null(), !pd.is_null());
            let cdesc = if cu { let p = &*pu; let mut v: Vec<(u64, u32)> = (0..p.missing.entries_count as usize).map(|i| (*p.missing.client_ids.add(i), *p.missing.clocks.add(i))).collect(); v.sort(); format!("missing={:?} update={}", v, hx(std::slice::from_raw_parts(p.update_v1 as *const u8, p.update_len as usize))) } else { "none".into() };
            let rdesc = match rtx.store().pending_update() { Some(p) => { let mut v: Vec<(u64, u32)> = p.missing.iter().map(|(c, k)| (c.get(), *k)).collect(); v.sort(); format!("missing={:?} update={}", v, hx(&p.update.encode_v1())) } None => "none".into() };
            let cds = if cd { let p = &*pd; let mut v: Vec<(u64, Vec<(u32, u32)>)> = (0..p.entries_count as usize).map(|i| { let q = &*p.ranges.add(i); (*p.client_ids.add(i), (0..q.len as usize).map(|k| ((*q.seq.add(k)).start, (*q.seq.add(k)).end)).collect()) }).collect(); v.sort(); format!("{:?}", v) } else { "none".into() };
            let rds = match rtx.store().pending_ds() { Some(d) => { let mut v: Vec<(u64, Vec<(u32, u32)>)> = d.iter().map(|(c, r)| (c.get(), r.iter().map(|x| (x.start, x.end)).collect())).collect(); v.sort(); format!("{:?}", v) } None => "none".into() };
            y::ypending_update_destroy(pu); y::ydelete_set_destroy(pd);
            if cu { cx.add("pending_updates_compared", 1); } if cd { cx.add("pending_delete_sets_compared", 1); }
            if cu != ru || cd != rd || cdesc != rdesc || cds != rds { fail!("pending-differs", "c_update": cdesc, "twin_update": rdesc, "c_ds": cds, "twin_ds": rds); }
            // while one transaction is open no write transaction can be had, on either side
            let w = y::ydoc_write_transaction(c.doc, 0, null());
            if !w.is_null() { y::ytransaction_commit(w); fail!("transaction-not-created", "detail": "ydoc_write_transaction returned a transaction while a read transaction is open (the native try_transact_mut refuses)"); }
            if rdoc.try_transact_mut().is_ok() { fail!("harness-error", "detail": "twin hands out a write transaction next to a read transaction"); }
        }
        // JSON path queries
        if r.chance(1, 4) {
            for q in ["$.a[0]", "$.a[*]", "$.m.k1", "$.m.*", "$..k2", "$.a[1:3]", "$.x[0]"] {
                let cq = CString::new(q).unwrap(); let it = y::ytransaction_json_path(ct, cq.as_ptr()); cx.used("ytransaction_json_path");
                let jp = yrs::JsonPath::parse(q);
                match (it.is_null(), jp) {
                    (true, Err(_)) => {}
                    (false, Ok(jp)) => {
                        let mut cv = vec![]; let mut cells = 0;
                        loop { let o = y::yjson_path_iter_next(it); if o.is_null() { break; } cv.push(cell_of_c(o, &mut cells)); y::youtput_destroy(o); if cv.len() > 300 { break; } }
                        y::yjson_path_iter_destroy(it);
                        let mut rv: Vec<String> = { use yrs::JsonPathEval; rtx.json_path(&jp).map(|o| cell_of_out(&o)).collect() };
                        let mut sv: Vec<String> = { use yrs::JsonPathEval; stx.json_path(&jp).map(|o| cell_of_out(&o)).collect() };
                        cx.add("json_path_results_compared", rv.len() as u64);
                        if cv != sv { fail!("json-path-differs", "query": q, "c": cv, "rust_same_doc": sv); }
                        cv.sort(); rv.sort(); sv.sort(); // wildcards over maps come in HashMap order
                        if cv != rv { fail!("json-path-differs", "query": q, "c": cv, "twin": rv); }
                    }
                    (cn, jp) => { if !it.is_null() { y::yjson_path_iter_destroy(it); } fail!("json-path-differs", "query": q, "c_is_null": cn, "twin_parses": jp.is_ok()) }
                }
            }
        }
        // observers: one rendering per firing, per observer
        for (i, l) in rlogs.iter().enumerate() {
            let st = &mut *c.states[i]; let cl = std::mem::take(&mut st.log); let rl = std::mem::take(&mut *l.lock().unwrap());
            cx.add("observer_events_compared", rl.len() as u64); cx.add("observer_cells", std::mem::take(&mut st.cells));
            if cl != rl { fail!("observer-event-differs", "observer": obs_names[i], "c": cl, "twin": rl); }
        }
        // sticky indexes created earlier
        for s in &stickies {
            let mut b: *mut y::Branch = null_mut(); let mut i: u32 = u32::MAX;
            y::ysticky_index_read(s.c as *const y::YStickyIndex, ct, &mut b, &mut i); cx.used("ysticky_index_read");
            let ro = s.r.get_offset(&rtx); let so = s.same.get_offset(&stx);
            let cdesc = if b.is_null() { "none".to_string() } else { format!("kind={} index={}", y::ytype_kind(b), i) };
            let rdesc = match &ro { None => "none".to_string(), Some(o) => format!("kind={} index={}", y::ytype_kind(&*o.branch as *const y::Branch), o.index) };
            let same_ok = match &so { None => b.is_null(), Some(o) => (&*o.branch as *const y::Branch) == b as *const y::Branch && o.index == i };
            cx.add("sticky_reads_compared", 1);
            if cdesc != rdesc || !same_ok { fail!("sticky-index-read-differs", "sticky": s.desc.clone(), "c": cdesc, "twin": rdesc, "agrees_with_rust_on_same_doc": same_ok); }
        }
        // snapshots
        if snapshots && !multi_attrs && !tolerate_bytes && r.chance(1, 3) {
            let mut n = 0u32;
            let cs = take_binary(y::ytransaction_snapshot(ct, &mut n), n); cx.used("ytransaction_snapshot");
            let rs = rtx.snapshot().encode_v1();
            if cs.as_deref() != Some(&rs[..]) {
                let same = cs.as_ref().and_then(|b| Snapshot::decode_v1(b).ok()).map(|s| s == rtx.snapshot()).unwrap_or(false);
                if same { cx.add("snapshot_bytes_differ_in_client_order_only", 1); } else { fail!("snapshot-differs", "c": cs.map(|b| hx(&b)), "twin": hx(&rs)); }
            }
            if snaps.len() < 4 { snaps.push(rs.clone()); }
            let snap = r.pick(&snaps).clone(); let sn = Snapshot::decode_v1(&snap).unwrap();
            let c1 = take_binary(y::ytransaction_encode_state_from_snapshot_v1(ct, snap.as_ptr() as *const c_char, snap.len() as u32, &mut n), n); cx.used("ytransaction_encode_state_from_snapshot_v1");
            let r1 = { let mut e = EncoderV1::new(); rtx.encode_state_from_snapshot(&sn, &mut e).ok().map(|_| e.to_vec()) };
            if c1.is_some() != r1.is_some() || (r1.is_some() && !bytes_match(cx, c1.as_deref(), r1.as_ref().unwrap(), exact)) { fail!("state-from-snapshot-differs", "encoding": "v1", "c": c1.map(|b| hx(&b)), "twin": r1.map(|b| hx(&b))); }
            let c2 = take_binary(y::ytransaction_encode_state_from_snapshot_v2(ct, snap.as_ptr() as *const c_char, snap.len() as u32, &mut n), n); cx.used("ytransaction_encode_state_from_snapshot_v2");
            let r2 = { let mut e = EncoderV2::new(); rtx.encode_state_from_snapshot(&sn, &mut e).ok().map(|_| e.to_vec()) };
            if c2.is_some() != r2.is_some() || (r2.is_some() && !bytes_match_v(cx, c2.as_deref(), r2.as_ref().unwrap(), exact, true)) { fail!("state-from-snapshot-differs", "encoding": "v2", "c": c2.map(|b| hx(&b)), "twin": r2.map(|b| hx(&b))); }
            cx.add(if r1.is_some() { "snapshot_states_compared" } else { "snapshot_refused_on_gc_doc" }, 1);
            cx.add("state_bytes_compared", (rs.len() + r1.map(|b| b.len()).unwrap_or(0) + r2.map(|b| b.len()).unwrap_or(0)) as u64);
        }
        if let Some(m) = rmgr.as_ref() {
            let (cu, cr) = (y::yundo_manager_undo_stack_len(c.mgr), y::yundo_manager_redo_stack_len(c.mgr));
            if cu as usize != m.undo_stack().len() || cr as usize != m.redo_stack().len() { fail!("undo-stack-differs", "c_undo": cu, "c_redo": cr, "twin_undo": m.undo_stack().len(), "twin_redo": m.redo_stack().len()); }
            cx.add("undo_stack_lens_compared", 1);
        }
        drop(stx); drop(rtx);
        commit(&mut c);
    }} }

    compare_all!();
    let n_ops = r.range(20, 60); let mut done = 0u64; let mut txns = 0u64;
    while done < n_ops {
        let action = r.below(100);
        if exchange && pending_left > 0 && action < 6 {
            // out of order delivery: Q commits two transactions, only the second one's update reaches C and the twin -> it has to wait
            pending_left -= 1;
            let (qd, qr) = (q.as_ref().unwrap(), qroots.as_ref().unwrap());
            qlog.lock().unwrap().clear();
            for _ in 0..2 { let mut qt = qd.transact_mut(); let idx = match &qr[1] { Out::YArray(a) => yrs::Array::len(a, &qt), _ => 0 }; let op = Op::ArrInsert { p: Path { root: 1, segs: vec![] }, idx, vals: vec![Val::J(J::Int(7))] }; log!("Q: {}", op.show()); exec_r(qr, &mut qt, &op); }
            let ups: Vec<Vec<u8>> = qlog.lock().unwrap().clone();
            if ups.len() == 2 {
                let upd = &ups[1]; log!("deliver only Q's second update ({} bytes)", upd.len());
                open_write(&mut c, None)?;
                let rc = y::ytransaction_apply(c.txn, upd.as_ptr() as *const c_char, upd.len() as u32);
                commit(&mut c);
                if rc != 0 { fail!("apply-error-code-differs", "c": rc, "twin_error": "none", "at": "update with missing dependencies"); }
                rdoc.transact_mut().apply_update(Update::decode_v1(upd).unwrap()).map_err(|e| json!({"class": "harness-error", "detail": format!("{e}")}))?;
                let _ = r2doc.transact_mut().apply_update(Update::decode_v1(upd).unwrap());
                cx.add("out_of_order_deliveries", 1);
            }
        } else if exchange && action < 12 {
            // the third replica edits concurrently
            let (qd, qr) = (q.as_ref().unwrap(), qroots.as_ref().unwrap());
            let mut qt = qd.transact_mut();
            for _ in 0..r.range(1, 3) { let mut op = gen_op(&mut r, &gen, qr, &qt); if exact { prune_op(&mut op); } if !multi_attrs { prune_op_attrs(&mut op, fmt_key); } if exchange { json_safe_op(&mut op); } log!("Q: {}", op.show()); if let Err(e) = catch(AssertUnwindSafe(|| exec_r(qr, &mut qt, &op))) { std::mem::forget(qt); fail!("native-call-panics", "op": op.show(), "function": op.kind_name(), "panic": e, "detail": "on the third (native only) replica") } cx.add("q_ops", 1); }
        } else if exchange && action < 24 {
            // Q -> C (ytransaction_apply / _v2) and the same bytes -> twin
            let v2 = r.chance(1, 2); let qd = q.as_ref().unwrap();
            open_write(&mut c, None)?;
            let mut n = 0u32; let svb = take_binary(y::ytransaction_state_vector_v1(c.txn, &mut n), n).unwrap_or_default();
            let sv = match StateVector::decode_v1(&svb) { Ok(s) => s, Err(e) => fail!("state-vector-differs", "detail": format!("C state vector does not decode: {e}")) };
            let upd = if v2 { qd.transact().encode_state_as_update_v2(&sv) } else { qd.transact().encode_state_as_update_v1(&sv) };
            log!("sync Q->C,twin ({}, {} bytes)", if v2 { "v2" } else { "v1" }, upd.len());
            if r.chance(1, 6) && upd.len() > 3 {
                // a truncated payload first: the error code must be the one of the native decoder's error
                let cut = r.range(1, upd.len() as u64 - 1) as usize; let part = &upd[..cut];
                let rc = if v2 { y::ytransaction_apply_v2(c.txn, part.as_ptr() as *const c_char, cut as u32) } else { y::ytransaction_apply(c.txn, part.as_ptr() as *const c_char, cut as u32) };
                let re = if v2 { Update::decode_v2(part).err() } else { Update::decode_v1(part).err() };
                match re { Some(e) => { cx.add("apply_error_codes_compared", 1); if rc != read_err_code(&e) { fail!("apply-error-code-differs", "c": rc, "twin_error": format!("{e}"), "expected_code": read_err_code(&e)); } }
                           None => { let u = if v2 { Update::decode_v2(part).unwrap() } else { Update::decode_v1(part).unwrap() }; let _ = rdoc.transact_mut().apply_update(u); let _ = r2doc.transact_mut().apply_update(if v2 { Update::decode_v2(part).unwrap() } else { Update::decode_v1(part).unwrap() }); if rc != 0 { fail!("apply-error-code-differs", "c": rc, "twin_error": "none (prefix decodes)"); } } }
                log!("  (truncated to {} bytes first: code {})", cut, rc);
            }
            { let d = if v2 { y::yupdate_debug_v2(upd.as_ptr() as *const c_char, upd.len() as u32) } else { y::yupdate_debug_v1(upd.as_ptr() as *const c_char, upd.len() as u32) }; cx.used(if v2 { "yupdate_debug_v2" } else { "yupdate_debug_v1" }); let txt = take_string(d); if txt.is_none() { fail!("update-debug-differs", "detail": "yupdate_debug returned NULL for a payload the native decoder accepts"); } }
            let rc = if v2 { cx.used("ytransaction_apply_v2"); y::ytransaction_apply_v2(c.txn, upd.as_ptr() as *const c_char, upd.len() as u32) } else { cx.used("ytransaction_apply"); y::ytransaction_apply(c.txn, upd.as_ptr() as *const c_char, upd.len() as u32) };
            if rc != 0 { fail!("apply-error-code-differs", "c": rc, "twin_error": "none"); }
            commit(&mut c);
            let u = if v2 { Update::decode_v2(&upd) } else { Update::decode_v1(&upd) }.map_err(|e| json!({"class": "harness-error", "detail": format!("{e}")}))?;
            rdoc.transact_mut().apply_update(u).map_err(|e| json!({"class": "harness-error", "detail": format!("twin apply: {e}")}))?;
            let _ = r2doc.transact_mut().apply_update(if v2 { Update::decode_v2(&upd) } else { Update::decode_v1(&upd) }.unwrap());
            cx.add("updates_applied_through_c", 1); cx.add("update_bytes_applied", upd.len() as u64);
        } else if exchange && action < 34 {
            // C -> Q: the diff against Q's state vector, computed by the C function, must be the twin's
            let v2 = r.chance(1, 2); let qd = q.as_ref().unwrap();
            let qsv = qd.transact().state_vector(); let qb = qsv.encode_v1();
            let ct = y::ydoc_read_transaction(c.doc); c.txn = ct; let mut n = 0u32;
            let d = if v2 { take_binary(y::ytransaction_state_diff_v2(ct, qb.as_ptr() as *const c_char, qb.len() as u32, &mut n), n) } else { take_binary(y::ytransaction_state_diff_v1(ct, qb.as_ptr() as *const c_char, qb.len() as u32, &mut n), n) };
            commit(&mut c);
            let e = { let t = rdoc.transact(); let pend = t.store().pending_update().is_some() || t.store().pending_ds().is_some();
                if pend { if v2 { t.encode_diff_v2(&qsv) } else { t.encode_diff_v1(&qsv) } } else if v2 { t.encode_state_as_update_v2(&qsv) } else { t.encode_state_as_update_v1(&qsv) } };
            log!("sync C->Q ({}, {} bytes)", if v2 { "v2" } else { "v1" }, e.len());
            if !tolerate_bytes && !bytes_match_v(cx, d.as_deref(), &e, exact, v2) { fail!("state-diff-differs", "encoding": if v2 { "v2" } else { "v1" }, "c": d.map(|b| hx(&b)), "twin": hx(&e)); }
            let u = if v2 { Update::decode_v2(&e) } else { Update::decode_v1(&e) }.map_err(|e| json!({"class": "harness-error", "detail": format!("{e}")}))?;
            qd.transact_mut().apply_update(u).map_err(|e| json!({"class": "harness-error", "detail": format!("Q apply: {e}")}))?;
            cx.add("diffs_computed_through_c", 1); cx.add("state_bytes_compared", e.len() as u64);
        } else if undo && action < 30 {
            let m = rmgr.as_mut().unwrap();
            match r.below(10) {
                0..=4 => { let cr = y::yundo_manager_undo(c.mgr); let rr = m.undo_blocking(); rmgr2.as_mut().unwrap().undo_blocking(); cx.used("yundo_manager_undo"); log!("undo -> {}", cr); if cr != rr as u8 { fail!("undo-result-differs", "call": "undo", "c": cr, "twin": rr); } cx.add("undo_calls", 1); }
                5..=7 => { let cr = y::yundo_manager_redo(c.mgr); let rr = m.redo_blocking(); rmgr2.as_mut().unwrap().redo_blocking(); cx.used("yundo_manager_redo"); log!("redo -> {}", cr); if cr != rr as u8 { fail!("undo-result-differs", "call": "redo", "c": cr, "twin": rr); } cx.add("redo_calls", 1); }
                8 => { y::yundo_manager_stop(c.mgr); m.reset(); rmgr2.as_mut().unwrap().reset(); cx.used("yundo_manager_stop"); log!("undo manager stop"); }
                _ => if r.chance(1, 3) { y::yundo_manager_clear(c.mgr); m.clear_all(); rmgr2.as_mut().unwrap().clear_all(); cx.used("yundo_manager_clear"); log!("undo manager clear"); },
            }
        } else {
            // one local transaction of 1-4 operations on both documents
            let k = r.range(1, 4).min(n_ops - done);
            open_write(&mut c, origin)?; cx.used("ydoc_write_transaction");
            let mut rt = match origin { None => rdoc.transact_mut(), Some(o) => rdoc.transact_mut_with(o) };
            let mut rt2 = match origin { None => r2doc.transact_mut(), Some(o) => r2doc.transact_mut_with(o) };
            { let rd = y::ydoc_read_transaction(c.doc); if !rd.is_null() { y::ytransaction_commit(rd); fail!("transaction-not-created", "detail": "ydoc_read_transaction returned a transaction while a write transaction is open"); } }
            log!("begin");
            for _ in 0..k {
                let mut op = gen_op(&mut r, &gen, &rroots, &rt); if exact { prune_op(&mut op); } if !multi_attrs { prune_op_attrs(&mut op, fmt_key); } if exchange { json_safe_op(&mut op); }
                log!("{}", op.show());
                if op.uses_nested() { info.nested = true; }
                // the twin first: a call that panics natively (the C wrapper would abort the process on it) ends the case as a native defect, not as a difference
                let rres = match catch(AssertUnwindSafe(|| exec_r(&rroots, &mut rt, &op))) { Ok(x) => x, Err(e) => { std::mem::forget(rt); std::mem::forget(rt2); std::mem::forget(rmgr.take()); std::mem::forget(rmgr2.take()); fail!("native-call-panics", "op": op.show(), "function": op.kind_name(), "panic": e, "detail": "the native call of the twin panicked on in-range arguments; the C function was not called (it would abort)") } };
                let _ = catch(AssertUnwindSafe(|| exec_r(&r2roots, &mut rt2, &op)));
                let cres = exec_c(&c.roots, c.txn, &op, &mut cx.cnt)?;
                cx.add(&format!("op:{}", op.kind_name()), 1);
                if cres != rres { fail!("return-value-differs", "op": op.show(), "c": cres, "twin": rres); }
                done += 1;
            }
            if sticky && stickies.len() < 6 && r.chance(1, 2) {
                // a sticky index on a text / array position (needs the write transaction on the C side)
                let which = if r.chance(1, 2) { 0 } else { 1 };
                let len = match &rroots[which] { Out::YText(t) => *text_positions(&yrs::Text::diff(t, &rt, yrs::types::text::YChange::identity)).last().unwrap(), Out::YArray(a) => yrs::Array::len(a, &rt), _ => 0 };
                let pos = if which == 0 { let ps = text_positions(&yrs::Text::diff(match &rroots[0] { Out::YText(t) => t, _ => unreachable!() }, &rt, yrs::types::text::YChange::identity)); *r.pick(&ps) } else { r.below(len as u64 + 1) as u32 };
                let assoc: i8 = *r.pick(&[0i8, -1, 1, -5]);
                let cp = y::ysticky_index_from_index(c.roots[which], c.txn, pos, assoc); cx.used("ysticky_index_from_index");
                let rp = StickyIndex::at(&rt, BranchPtr::from(&*(branch_of_out(&rroots[which]))), pos, if assoc >= 0 { Assoc::After } else { Assoc::Before });
                let desc = format!("sticky({},{},assoc {})", ROOT_NAMES[which], pos, assoc); log!("{}", desc);
                match (cp.is_null(), rp) {
                    (true, None) => { cx.add("sticky_none_both", 1); }
                    (false, Some(rp)) => {
                        c.stickies.push(cp);
                        let mut n = 0u32; let cb = take_binary(y::ysticky_index_encode(cp, &mut n), n).unwrap_or_default(); cx.used("ysticky_index_encode");
                        let rb = rp.encode_v1();
                        if cb != rb { fail!("sticky-index-encoding-differs", "sticky": desc, "c": hx(&cb), "twin": hx(&rb)); }
                        let ca = y::ysticky_index_assoc(cp); if (ca >= 0) != (assoc >= 0) { fail!("sticky-index-assoc-differs", "sticky": desc, "c": ca); }
                        let cj = take_string(y::ysticky_index_to_json(cp)); cx.used("ysticky_index_to_json"); let rj = serde_json::to_string(&rp).ok();
                        if cj != rj { fail!("sticky-index-json-differs", "sticky": desc, "c": cj, "twin": rj); }
                        let cjs = CString::new(cj.unwrap_or_default()).unwrap();
                        let back = y::ysticky_index_from_json(cjs.as_ptr()); cx.used("ysticky_index_from_json");
                        if back.is_null() { fail!("sticky-index-json-differs", "sticky": desc, "detail": "from_json(to_json(p)) is NULL"); }
                        let bb = take_binary(y::ysticky_index_encode(back, &mut n), n).unwrap_or_default(); y::ysticky_index_destroy(back);
                        let dec = y::ysticky_index_decode(cb.as_ptr() as *const c_char, cb.len() as u32); cx.used("ysticky_index_decode");
                        if dec.is_null() { fail!("sticky-index-encoding-differs", "sticky": desc, "detail": "decode(encode(p)) is NULL"); }
                        let db = take_binary(y::ysticky_index_encode(dec, &mut n), n).unwrap_or_default(); y::ysticky_index_destroy(dec);
                        if bb != cb || db != cb { fail!("sticky-index-roundtrip-differs", "sticky": desc, "original": hx(&cb), "through_json": hx(&bb), "through_binary": hx(&db)); }
                        stickies.push(StickyPair { c: cp as usize, same: StickyIndex::decode_v1(&cb).map_err(|e| json!({"class": "sticky-index-encoding-differs", "detail": format!("{e}")}))?, r: rp, desc });
                        cx.add("sticky_created", 1);
                    }
                    (cn, rp) => fail!("sticky-index-creation-differs", "sticky": desc, "c_is_null": cn, "twin_is_none": rp.is_none()),
                }
            }
            if force_gc && r.chance(1, 5) { y::ytransaction_force_gc(c.txn); rt.gc(None); rt2.gc(None); cx.used("ytransaction_force_gc"); log!("force_gc"); }
            commit(&mut c); cx.used("ytransaction_commit");
            drop(rt); drop(rt2);
            log!("commit");
            txns += 1;
        }
        compare_all!();
    }
    if exchange {
        // everything is exchanged: Q -> C and twin, C -> Q; then the three replicas must show the same content
        let qd = q.as_ref().unwrap();
        open_write(&mut c, None)?;
        let mut n = 0u32; let svb = take_binary(y::ytransaction_state_vector_v1(c.txn, &mut n), n).unwrap_or_default();
        let sv = StateVector::decode_v1(&svb).map_err(|e| json!({"class": "state-vector-differs", "detail": format!("{e}")}))?;
        let upd = qd.transact().encode_state_as_update_v1(&sv);
        let rc = y::ytransaction_apply(c.txn, upd.as_ptr() as *const c_char, upd.len() as u32);
        commit(&mut c);
        if rc != 0 { fail!("apply-error-code-differs", "c": rc, "twin_error": "none", "at": "final exchange"); }
        rdoc.transact_mut().apply_update(Update::decode_v1(&upd).unwrap()).map_err(|e| json!({"class": "harness-error", "detail": format!("{e}")}))?;
        let _ = r2doc.transact_mut().apply_update(Update::decode_v1(&upd).unwrap());
        log!("final exchange");
        compare_all!();
        let qsv = qd.transact().state_vector(); let qb = qsv.encode_v1();
        let ct = y::ydoc_read_transaction(c.doc); c.txn = ct;
        let d = take_binary(y::ytransaction_state_diff_v2(ct, qb.as_ptr() as *const c_char, qb.len() as u32, &mut n), n).unwrap_or_default();
        commit(&mut c);
        qd.transact_mut().apply_update(Update::decode_v2(&d).map_err(|e| json!({"class": "state-diff-differs", "detail": format!("C diff does not decode: {e}")}))?).map_err(|e| json!({"class": "harness-error", "detail": format!("{e}")}))?;
        let (dc, dr, dq) = (dump::public_dump(same_doc), dump::public_dump(&rdoc), dump::public_dump(qd));
        cx.add("convergence_checks", 1);
        if dc != dr || dc != dq { fail!("replicas-diverge", "c": dc, "twin": dr, "q": dq); }
    }
    cx.add("transactions", txns);
    for s in c.states.iter() { cx.add("observer_callbacks", (**s).calls); }
    // teardown: twin side first where it refers to nothing of C; C side through its destroy functions (CSide::drop)
    drop(rdsubs); drop(rmgr); drop(rmgr2); drop(rsubs);
    for f in ["ydoc_destroy"] { cx.used(f); }
    if !c.subs.is_empty() { cx.used("yunobserve"); } if !c.mgr.is_null() { cx.used("yundo_manager_destroy"); } if !c.stickies.is_empty() { cx.used("ysticky_index_destroy"); }
    drop(stickies);
    Ok(())
}

// ---------------------------------------------------------------------------------------------------------
// abort probes: calls with valid handles and in-range arguments that were seen to abort the process (a panic inside an
// `extern "C"` function cannot unwind). Each runs in its own child process; the random programs avoid these calls so
// that the rest of a case can still be compared.
// ---------------------------------------------------------------------------------------------------------
pub fn probes() -> Vec<(&'static str, &'static str, Vec<&'static str>)> {
    vec![
        ("xmlfragment-string", "yxmlelem_string", vec!["doc = ydoc_new()", "x = yxmlfragment(doc, \"x\")", "txn = ydoc_read_transaction(doc)", "yxmlelem_string(x, txn)   // documented to render <UNDEFINED>...</UNDEFINED>; native XmlFragmentRef::get_string works"]),
    ]
}
pub unsafe fn run_probe(name: &str) {
    let doc = y::ydoc_new();
    let nx = CString::new("x").unwrap();
    match name {
        "xmlfragment-string" => { let x = y::yxmlfragment(doc, nx.as_ptr()); let t = y::ydoc_read_transaction(doc); let s = y::yxmlelem_string(x, t); y::ystring_destroy(s); y::ytransaction_commit(t); }
        "undo-while-transaction-open" => {
            let nt = CString::new("t").unwrap(); let a = CString::new("a").unwrap();
            let t = y::ytext(doc, nt.as_ptr()); let o = y::YUndoManagerOptions { capture_timeout_millis: 0 }; let mgr = y::yundo_manager(&o); y::yundo_manager_add_scope(mgr, doc, t);
            let txn = y::ydoc_write_transaction(doc, 0, null()); y::ytext_insert(t, txn, 0, a.as_ptr(), null()); y::ytransaction_commit(txn);
            let txn = y::ydoc_read_transaction(doc);
            let r = y::yundo_manager_undo(mgr);
            println!("returned {}", r);
            y::ytransaction_commit(txn); y::yundo_manager_destroy(mgr);
        }
        _ => { eprintln!("unknown probe {}", name); std::process::exit(2); }
    }
    y::ydoc_destroy(doc);
}
/// Deterministic miniature scripts for differences that the random programs work around (so that their cases can go on):
/// each difference still shows up as one failure with its minimal script.
pub fn scripted_findings(rep: &mut Report) {
    use yrs::Array;
    unsafe {
        // an update whose dependencies are missing stays pending: ytransaction_state_diff_v1/_v2 (encode_diff) leave it out, the
        // native encode_state_as_update_v1/_v2 append it
        rep.evaluations += 1; rep.count("scripted_checks");
        let q = mk_doc(3, false); let qa = q.get_or_insert_array("a");
        let log: std::sync::Arc<std::sync::Mutex<Vec<Vec<u8>>>> = Default::default(); let l = log.clone();
        let _s = q.observe_update_v1(move |_, e| l.lock().unwrap().push(e.update.clone())).unwrap();
        { let mut t = q.transact_mut(); qa.insert(&mut t, 0, 1i64); } { let mut t = q.transact_mut(); qa.insert(&mut t, 1, 2i64); }
        let second = log.lock().unwrap()[1].clone();
        let twin = mk_doc(1, false); twin.get_or_insert_array("a"); twin.transact_mut().apply_update(Update::decode_v1(&second).unwrap()).unwrap();
        let guid = CString::new("c19").unwrap(); let na = CString::new("a").unwrap();
        let cdoc = y::ydoc_new_with_options(y::YOptions { id: 1, guid: guid.as_ptr(), collection_id: null(), flags: y::Y_OFFSET_UTF16 | y::Y_SHOULD_LOAD });
        y::yarray(cdoc, na.as_ptr());
        let t = y::ydoc_write_transaction(cdoc, 0, null()); let rc = y::ytransaction_apply(t, second.as_ptr() as *const c_char, second.len() as u32); y::ytransaction_commit(t);
        let t = y::ydoc_read_transaction(cdoc); let mut n = 0u32;
        let c1 = take_binary(y::ytransaction_state_diff_v1(t, null(), 0, &mut n), n).unwrap_or_default();
        let c2 = take_binary(y::ytransaction_state_diff_v2(t, null(), 0, &mut n), n).unwrap_or_default();
        y::ytransaction_commit(t); y::ydoc_destroy(cdoc);
        let tx = twin.transact();
        let (s1, s2, d1, d2) = (tx.encode_state_as_update_v1(&StateVector::default()), tx.encode_state_as_update_v2(&StateVector::default()), tx.encode_diff_v1(&StateVector::default()), tx.encode_diff_v2(&StateVector::default()));
        let _ = (&s1, &s2);
        if rc != 0 || c1 != d1 || c2 != d2 {
            rep.fail(json!({"property": "C19", "class": "state-diff-differs-from-native-encode-diff", "case": {"stream": 19, "scripted": "pending-update"},
                "script": ["Q (native, client 3): a.insert(0, 1) ; a.insert(1, 2)   // two transactions, two incremental updates", "doc C: ytransaction_apply(txn, <Q's SECOND update only>) -> 0 ; commit   // the update has to wait for the first one", "twin (native): apply_update(<the same bytes>)", "ytransaction_state_diff_v1(txn, NULL, 0) / _v2  vs  twin.encode_state_as_update_v1(&StateVector::default()) / _v2"],
                "apply_code": rc, "c_v1": hx(&c1), "twin_encode_state_as_update_v1": hx(&s1), "twin_encode_diff_v1": hx(&d1), "c_equals_native_encode_diff": c1 == d1 && c2 == d2,
                "detail": "the C functions encode the integrated store only (Store::encode_diff); the native encode_state_as_update_* also carries the pending update, so a peer syncing through the C API never forwards it"}));
        }
    }
    rep.notes.push("C19 observations (documentation of yffi vs behaviour, same on the native side, not counted as failures): ytransaction_state_diff_v1/_v2 delegate to encode_diff and, like it, leave a pending update out (the native encode_state_as_update_* carries it); yundo_manager_undo / _redo call undo_blocking / redo_blocking and, like them, never return while another transaction on the document is open (the doc comment promises Y_FALSE); a string output cell carries len = UTF-8 byte length (the YOutput doc comment says 1 for every non-collection cell; the Coq model uses the byte length); YDeltaOut.len of an inserted chunk is 1 whatever the chunk's length; yxmlelem_tag() of the root returned by yxmlfragment() is NULL (documented: \"UNDEFINED\"); ysticky_index_read leaves its out parameters untouched when the index cannot be resolved.".to_string());
    rep.notes.push("C19 comparison rules: std HashMap iteration order inside yrs (entry order of json maps in the encoding, order - even number - of the format items of multi-key / negated attributes, merging of collected ranges) makes two NATIVE documents fed the same calls encode differently; where the bytes of doc C and the twin differ the stores the two payloads produce in a fresh document are compared unit by unit (counter state_bytes_differ_but_canonical_stores_equal), cases with multi-key formatting attributes compare content only (state_compare_skipped_multi_key_attrs).".to_string());
}
/// run every abort probe in a child process; a child that dies is a failure of class "c-function-aborts"
pub fn run_probes(rep: &mut Report) {
    let exe = std::env::current_exe().expect("current_exe");
    for (name, function, script) in probes() {
        rep.evaluations += 1; rep.count("abort_probes");
        // a probe that does not come back within 5 s is killed: the call hangs
        let st = std::process::Command::new(&exe).args(["C19", "--probe", name]).stdout(std::process::Stdio::null()).stderr(std::process::Stdio::piped()).spawn().and_then(|mut ch| {
            let t0 = std::time::Instant::now();
            loop { if ch.try_wait()?.is_some() { break; } if t0.elapsed().as_secs() >= 5 { let _ = ch.kill(); let _ = ch.wait();
                    rep.fail(json!({"property": "C19", "class": "c-function-hangs", "probe": name, "function": function, "script": script, "case": {"stream": 19, "probe": name}, "detail": "no return within 5 s; the child process was killed"}));
                    return Ok(None); } std::thread::sleep(std::time::Duration::from_millis(20)); }
            ch.wait_with_output().map(Some)
        });
        let st = match st { Ok(None) => continue, Ok(Some(o)) => Ok(o), Err(e) => Err(e) };
        match st {
            Ok(o) if o.status.success() => { rep.count("abort_probes_survived"); }
            Ok(o) => { use std::os::unix::process::ExitStatusExt; let err = String::from_utf8_lossy(&o.stderr); let msg: String = err.lines().find(|l| l.contains("PANIC") || l.contains("panicked")).unwrap_or("").chars().take(300).collect();
                rep.fail(json!({"property": "C19", "class": "c-function-aborts", "probe": name, "function": function, "signal": o.status.signal(), "panic": msg, "script": script, "case": {"stream": 19, "probe": name}})); }
            Err(e) => rep.notes.push(format!("probe {} could not be started: {}", name, e)),
        }
    }
}
